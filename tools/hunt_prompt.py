"""Prompt for an auditing sub-agent (audit round): property text + scratch worktree, asked for reproduced violations of the unchanged tree.
  python tools/hunt_prompt.py C07 > /tmp/hunt-C07.txt   (worktree /tmp/hunt-C07)"""
import json, sys
pid=sys.argv[1]
for line in open('/verif/properties.jsonl'):
    p=json.loads(line)
    if p['id']==pid: break
prop='%s - %s\n\nStatement: %s\n\nQuantifier: %s\n' % (pid,p['title'],p['statement'],p['quantifier']['text'])
print(f"""You are auditing an open-source Python project, the asyncio IMAP server pymap (icgood/pymap), for violations of one semantic property in the code AS IT IS (do not change the project's code).

Your private working copy is the git worktree at /tmp/hunt-{pid} (a checkout of the project; work ONLY inside this directory, do not touch /repo or /verif, do not read anything under /verif).

The property:

{prop}

Task: find concrete inputs, command sequences, multi-session interleavings or fault points for which the UNMODIFIED code in /tmp/hunt-{pid} violates this property. Read the code that is supposed to make the property hold (start with README.md, pymap/imap/__init__.py, pymap/imap/state.py, pymap/selected.py, pymap/backend/session.py, pymap/backend/dict/, pymap/backend/maildir/, pymap/parsing/, pymap/mime/, pymap/search.py, pymap/fetch.py, pymap/sieve/manage/ as relevant), think about unusual but legal inputs, boundary values, lenient parsing (Python stdlib functions that accept more than the protocol grammar), encoding corner cases, unusual orders of operations, and try them against the real server code. Only report violations you have actually reproduced by running the real code.

Deliver /tmp/hunt-{pid}/hunt_demo.py: a plain python program that drives the real server code (for example an IMAPServer / ManageSieveServer on the dict or maildir backend over in-memory asyncio streams, as test/server/base.py + mocktransport.py do, or backend/session/parsing classes directly) and prints, for each finding, a line 'FINDING <n>: <one-line description>' followed by the exact input bytes / command sequence and the offending output. It must run as: cd /tmp/hunt-{pid} && PYTHONPATH=/tmp/hunt-{pid} /venv/bin/python hunt_demo.py
Also write /tmp/hunt-{pid}/hunt_note.md: for each finding, which clause of the property it violates, the minimal input, the observed versus expected behaviour, and the place in the code responsible. Rank the findings by how clearly they violate the property as stated (do not pad the list with behaviour the property does not speak about; a by-design limitation should be labelled as such). If you find nothing after a thorough attempt, say so and list what you tried.

There is no network. The project's test suite runs as: cd /tmp/hunt-{pid} && PYTHONPATH=/tmp/hunt-{pid} /venv/bin/python -m pytest -q -p no:cacheprovider --timeout=900 --continue-on-collection-errors (300 passed, 4 expected collection errors). Spend your effort on finding and reproducing violations; keep the final report brief: the list of findings with their minimal inputs.""")
