#!/bin/sh
cd /verif
for p in C01 C02 C03 C04 C05 C06 C07 C08 C09 C10 C11 C12 C13 C14 C15 C16 C17 C18 C19 C20; do
  echo "== $p"
  timeout 1200 ./check $p --tier quick --seed 1 --collect --no-evidence --budget 200 2>&1 | grep -v "^KNOWN\|conda" | tail -6 | cut -c1-400
done
