"""Prompt for a seeding sub-agent: property text + scratch worktree only.
  python tools/agent_prompt.py C07 > /tmp/agent-C07.txt   (worktree /tmp/wt-C07)"""
import json
import os
import sys


def prop_text(pid):
    root = os.path.dirname(os.path.dirname(os.path.abspath(__file__)))
    for line in open(os.path.join(root, 'properties.jsonl')):
        p = json.loads(line)
        if p['id'] == pid:
            return '%s - %s\n\nStatement: %s\n\nQuantifier: %s\n' % (
                pid, p['title'], p['statement'], p['quantifier']['text'])
    raise SystemExit('no such property')


pid=sys.argv[1]
prop=prop_text(pid)
print(f"""You are helping evaluate a verification tool by planting a realistic, subtle bug ("seeded change") in an open-source Python project, the asyncio IMAP server pymap (icgood/pymap).

Your private working copy is the git worktree at /tmp/wt-{pid} (a checkout of the project; work ONLY inside this directory, do not touch /repo or /verif, do not read anything under /verif).

The semantic property your change must BREAK:

{prop}

What to deliver (all inside /tmp/wt-{pid}):
1. A small source change to the project (files under pymap/) that breaks the property above while the code still imports and the existing test suite still passes completely. Make it the kind of mistake a maintainer could plausibly make in a refactor (an off-by-one, a dropped condition, a reordered pair of statements, a check on the wrong variable, a lost lock or await ordering...). IMPORTANT: it must need something specific to manifest - a particular interleaving of two sessions, a fault at a particular point, a multi-step sequence of operations, an unusual input, or two cooperating sites that each look fine alone - NOT something any ordinary use would expose at once. Keep it small (ideally under 15 changed lines). Do not add new files under pymap/. Do not touch the tests.
2. Save the change as a unified diff in /tmp/wt-{pid}/seeded_patch.diff (output of `git diff` for the pymap/ files only, applicable with `patch -p1` / `git apply` from the worktree root).
3. A demonstration program /tmp/wt-{pid}/seeded_demo.py (plain python, or a pytest file) that exercises the real server code (for example through pymap's own test harness in test/server/base.py + mocktransport.py, or by calling the backend/session/parsing classes directly with asyncio) and that FAILS (non-zero exit / failing assertion) with your change applied and PASSES without it. It must be runnable as: cd /tmp/wt-{pid} && PYTHONPATH=/tmp/wt-{pid} /venv/bin/python seeded_demo.py   (or ... -m pytest seeded_demo.py -q -p no:cacheprovider).
4. A short note /tmp/wt-{pid}/seeded_note.md: which clause of the property breaks, what exactly is needed for it to manifest (the interleaving / fault / sequence / input), and the commands you ran with their results.

How to run things (always use these exact forms so that the worktree's code, not an installed copy, is imported):
  cd /tmp/wt-{pid} && PYTHONPATH=/tmp/wt-{pid} /venv/bin/python -m pytest -q -p no:cacheprovider --timeout=900 --continue-on-collection-errors
The unmodified tree gives "300 passed, 4 errors" (the 4 collection errors in test/server/test_admin_*.py are expected: a dependency is missing offline; they are not failures). With your change it must still say 300 passed. There is no network.

Verify all of it yourself before finishing: (a) suite still 300 passed with the change; (b) demo fails with the change; (c) `git stash` or `git checkout -- pymap` to remove the change, demo passes, then re-apply the patch from seeded_patch.diff so the worktree ends with the change applied. Leave the worktree with the change applied and the three seeded_* files present.

Start by reading the project: README.md, pymap/imap/__init__.py, pymap/imap/state.py, pymap/selected.py, pymap/backend/session.py, pymap/backend/dict/, pymap/backend/maildir/, pymap/concurrent.py, pymap/parsing/, pymap/sieve/manage/, test/server/. Pick the code that is meant to make the property hold and weaken it subtly. Report briefly what you changed and the verification results.""")
