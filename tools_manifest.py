"""Regenerates MANIFEST.json from the table below (run after adding a profile)."""
import json, os
ROOT = os.path.dirname(os.path.abspath(__file__))
CHECKS = {
 'C01': ('exploration', '4/C01', 'seeded search over multi-session schedules; shadow client + glass-box view oracle',
         'Many seeded multi-session executions of the real server (dict and maildir backends; SELECT and EXAMINE sessions, sessions that leave and re-enter the mailbox or die mid-command, deliveries and foreign lock holders on maildir) under a deterministic scheduler; every untagged response is applied to a shadow client and checked on the fly (EXPUNGE/EXISTS/FETCH numbering rules) and against the server\'s own sequence list after every tagged reply. Sampling, not proof: a clean batch is evidence.',
         'Trusted: the simulator\'s asyncio semantics (FIFO ready queue, StreamReader from the stdlib), the strict response parser, the shadow rules as written in the property. lock_yield/drain_yield make awaits suspend that do not suspend with today\'s asyncio.Lock.'),
 'C02': ('exploration', '4/C02', 'seeded search over multi-session histories; shadow view vs probe dump at quiescent points',
         'Seeded histories of mutating commands by 2-4 sessions (including stale UID targets, read-only sessions, sessions cancelled or reset mid-command, deliveries), with quiescent points (in-flight commands are given time to finish first) at which every session sends NOOP/CHECK and its shadow view (UIDs + believed flags) must equal a read-only probe dump of the mailbox.',
         'Trusted: probe dump through the real server is the ground truth; shadow .SILENT bookkeeping follows PERMANENTFLAGS as advertised.'),
}
CHECKS.update({
 'C16': ('exploration', '4/C16', 'seeded search over idler/writer schedules with held drains; bounded-liveness oracle (3 virtual s, no stimulus)',
         'Idling sessions and writers under a seeded scheduler, with the idler\'s drain() held across later changes; DONE racing a change or sent into a stalled notification, followed by a NOOP convergence check; after the burst the simulator runs 3 virtual seconds with no input and the idler\'s shadow view must equal a probe dump; DONE must give OK, anything else BAD; pushed data obeys the C01 numbering rules.',
         'Trusted: as C01; the liveness bound (3 virtual seconds) is part of the oracle.'),
 'C17': ('exploration', '4/C17', 'seeded search over select/examine/close/append orders; recent-exclusivity model',
         'Seeded histories of deliveries/APPEND/COPY/MOVE with 1-3 sessions selecting, examining, closing, reselecting and disconnecting; oracle: every (mailbox, UID) is seen \\Recent by at most one read-write selection, RECENT counts equal the flags shown, STORE of \\Recent has no effect, an arrival (command or delivery agent) with nobody selected is \\Recent for the first read-write SELECT (asserted only in unambiguous histories), a message shown \\Recent to a read-only selection is shown to some read-write selection too (a fresh one is opened at the end), and a read-only probe never sees \\Recent stored.',
         'Trusted: as C01; garbage collection is run when a connection ends (otherwise only reference counting), which fixes who is still "selected".'),
})
CHECKS.update({
 'C10': ('exploration', '4/C10', 'seeded program generation; sequential reference model vs probe dump after every command',
         'One mutating session (plus passive NOOP sessions; in a third of the programs a second writer doing NOOP + UID STORE strictly between the first one\'s commands) runs seeded programs of message commands through the simulated server; a plain sequential model of mailboxes interprets the same symbolic commands, and after every command the touched mailboxes are dumped through a fresh read-only connection and compared (UIDs, flags, sizes, dates) together with the command\'s own untagged results.',
         'Trusted: the reference model (sim/model.py, written from RFC 3501/4315/6851), the probe dump, PERMANENTFLAGS as advertised. Where the RFC leaves behaviour open (out-of-range sequence numbers, empty sets) both outcomes are accepted.'),
 'C12': ('exploration', '4/C12', 'differential pair of deterministic runs (with / without the read-only program)',
         'Each case is run twice in the simulator: with a read-only session (EXAMINE, or SELECT of the read-only demo mailbox) executing a random program of every message command, and without that session; the next read-write session must observe identical SELECT counts and per-message flags including \\Recent (deliveries made from inside the read-only selection are made from outside it in the other run; third-party deliveries happen in both, and the read-write observers together must be shown the same \\Recent UIDs); mutating commands must answer NO, CLOSE must answer OK, observers must receive no change notifications.',
         'Trusted: simulator determinism (run A and run B differ only by the read-only program); checked by digest re-runs.'),
})
CHECKS.update({
 'C05': ('exploration', '4/C05', 'exhaustive enumeration of short command programs from 5 start states and of interference / IDLE families, then seeded random programs (chunked input, maildir); state model + reveal probes',
         'All programs of length <= 2 (thorough: <= 3 from the not-authenticated state) over a 38-letter alphabet covering every built-in command, from five start states (TLS required: from two in the quick tier), plus families with a second session deleting/renaming the selected mailbox, IDLE ended by garbage, and DONE pipelined with a change of selection, are executed against the simulated server; a four-state model predicts accept/refuse, three effect-free probes after every letter reveal the real state and which mailbox is selected, and a refused letter must leave state and every mailbox dump unchanged. Longer programs are sampled with seeds. Exhaustive over programs of the stated length, sampling beyond.',
         'Trusted: the state model (profiles/c05.py), the reveal probes being effect-free, the observer dumps. Schedules are not the variable here (single connection); input chunking is varied in the random part.'),
 'C06': ('exploration', '4/C06', 'seeded input generation (grammar-derived, mutated, raw; hostile stored messages) executed in the simulator with a canary connection; answered-within-bound oracle and wall watchdog',
         'Seeded command lines in the three connection states - template-derived for every command, structurally mutated, and raw bytes - plus hostile stored messages fetched with every attribute and searched with every key, are sent to the simulated server. Oracle: every structurally complete line gets a tagged completion / * BAD / continuation / BYE within 2 virtual seconds, a canary connection keeps getting OK, the connection task never ends with an exception ([SERVERBUG]) and is never closed without BYE; a 5 s wall watchdog per loop iteration turns an infinite loop into a reported hang with its call site.',
         'Trusted: the framing rule used to decide whether an input leaves the server owed literal data (a marker counts only at the end of a physical line); the 5 s wall watchdog. 15% of the cases go to the ManageSieve listener, 25% replay the multi-session and model generators and report only exceptions, hangs and commands left unanswered at the end.'),
})
CHECKS.update({
 'C07': ('exploration', '4/C07', 'seeded hostile-echo workloads plus the C01/C06/C10 generators; strict independent response parser over every byte written',
         'Seeded workloads make the server echo client-chosen data (mailbox names with quotes, backslashes, CR/LF, NUL, 8-bit and non-ASCII, hostile headers, MIME parameters and nesting shapes up to chains of 1200 messages inside messages, APPEND date-time spellings) through LIST/LSUB/STATUS/FETCH/SEARCH/STORE/ID; the complete byte stream of every connection is parsed by a strict parser written from the RFC 3501 grammar, independent of pymap.parsing. The C06 input generator and the C01/C10 multi-command generators feed the same monitor.',
         'Trusted: sim/wire.py as the reading of the grammar; it enforces what the statement lists (complete CRLF lines, literal counts, quoted-string content, balanced lists, shapes of FETCH/LIST/STATUS/ENVELOPE/BODYSTRUCTURE with its extension data/response codes, non-empty resp-text, seven-bit quoted strings, no request-only .PEEK item names in responses). Its own bound: 120 body levels / 260 list levels, above what the server emits since nesting is parsed to 100 levels.'),
})
CHECKS.update({
 'C19': ('exploration', '4/C19', 'exhaustive pre-authentication programs (length <= 2) plus seeded command programs on the simulated ManageSieve listener; dictionary model per user',
         'ManageSieveServer runs over simulated streams with two users. Every program of one or two of the 14 commands issued before authentication is enumerated and followed by a check through fresh authenticated connections that neither user\'s store changed; seeded programs of 3-25 commands with hostile script names and arbitrary script bytes are compared against a name-to-bytes dictionary with at most one active name, including isolation between users.',
         'Trusted: the dictionary model (profiles/c19.py) and the strict RFC 5804 response parser (sim/sieve.py). Only the dict backend\'s FilterSet is run.'),
 'C20': ('exploration', '4/C20', 'seeded schedules of 2-4 tasks on the real lock primitives with lock_yield and cancellation at seeded loop iterations; enter/exit overlap oracle',
         'Harness tasks run generated programs of read/write acquisitions with yields inside the critical section on pymap.concurrent\'s asyncio read-write lock and on FileLock (tmpfs), under the virtual-time loop; asyncio.Lock acquire/release are made real suspension points and one task is cancelled at a seeded iteration in half of the cases. Oracle: no writer section overlaps any section (FileLock: no two writers), every task ends, a fresh task then obtains the write lock, the lock file is gone.',
         'Trusted: the enter/exit log written by the harness tasks. The threading variants of the primitives are not run (same code shape as the asyncio variant before its repair).'),
})
CHECKS.update({
 'C09': ('exploration', '4/C09', 'seeded attempt sequences over credentials, mechanisms, TLS/peer configurations and mid-exchange EOF/reset; authentication model + whoami reveal',
         'Seeded sequences of 1-6 authentication attempts (LOGIN, AUTHENTICATE PLAIN with authzid, AUTHENTICATE LOGIN; right, wrong, empty, oversized and malformed secrets, cancel, EOF and reset while the server waits) under every TLS/peer/STARTTLS configuration, on the IMAP and ManageSieve listeners (ManageSieve with UNAUTHENTICATE between attempts; both on dict and maildir); after every attempt a LIST (LISTSCRIPTS) must be accepted iff the model says authenticated and a marker mailbox (script) must name the identity the model expects.',
         'Trusted: the authorization model stated in the evidence assumptions; marker mailboxes created at set-up identify the acting user; 0.3 s invalid-user sleep runs on the virtual clock.'),
 'C11': ('exploration', '4/C11', 'seeded namespace programs; namespace model + own wildcard matcher and modified-UTF-7 decoder; probe dumps around RENAME',
         'Seeded programs of namespace commands over hostile hierarchical names (including the store\'s own directory and control-file names, names ending or starting with a space, INBOX/... names and never-created ancestors) are compared step by step with a model of the name set, the subscribed set and per-mailbox identity/contents; LIST/LSUB results are judged by an independent matcher ("*" any, "%" any but "/"), every listed name is decoded with the harness\'s own modified-UTF-7 decoder, and RENAME must preserve UIDs, contents, UIDVALIDITY and MAILBOXID of the mailbox and its inferiors.',
         'Trusted: the namespace model and matcher in profiles/c11.py; behaviours the statement leaves open (inferiors of INBOX, \\Noselect names, subscribed-but-missing names) are accepted either way.'),
})
CHECKS.update({
 'C13': ('exploration', '4/C13', 'seeded mailboxes and search programs; independent evaluator, SEARCH/UID SEARCH mapping through the shadow, equivalence rewrites',
         'Seeded mailboxes of generated messages (flags, keywords, sizes, internal and sent dates in several time zones around midnight, header and body vocabulary) are searched with seeded programs to nesting depth 4 over every supported key; an evaluator written from RFC 3501 6.4.4, independent of pymap.search, gives the expected set over the session\'s view (hidden expunged messages may be in or out), UID and sequence results are mapped through the shadow, and logically equivalent rewrites must return the same set.',
         'Trusted: the evaluator in profiles/c13.py; two readings of "disregarding time and timezone" are accepted; header keys are read against the text of the header (the open finding F-C13-header-normalised is named only when the answer equals the evaluator\'s answer over the header registry\'s rewritten values). A legal program must be answered OK unless it names a sequence number beyond the view.'),
})
CHECKS.update({
 'C03': ('exploration', '4/C03', 'seeded input generation of message byte strings executed in the simulator (literal kinds, chunked delivery, MULTIAPPEND, concurrent COPY/MOVE); byte-equality oracle with diagnosis',
         'Seeded byte strings (structured generator over header/separator/line-ending/MIME shapes, hostile generators, raw bytes, up to 64 KiB, byte mutations) are appended through the simulated connection with {n} or {n+} literals and seeded chunking, optionally copied or moved by a second session while the first fetches; BODY[], RFC822, RFC822.SIZE, BODY[HEADER]+BODY[TEXT], partial ranges, BODY[1] = BODY[TEXT] for non-multiparts and the octet counts of every leaf part in BODYSTRUCTURE (RFC 3501 part numbering, through message/rfc822 parts) are compared with the appended bytes for the source and the copy.',
         'The statement is a function of the input bytes and the backend; the simulator contributes the delivery path, storage and the second session, the deciding step is seeded input generation. Trusted: the strict response parser that extracts literals.'),
})
CHECKS.update({
 'C18': ('exploration', '4/C18', 'metamorphic pairs of deterministic runs (plain vs. respelled program); harness modified-UTF-7 decoder; direct-call round trip of parsed values',
         'Each seeded symbolic program is executed twice from identical initial state in the simulator, once in plain spelling and once with every astring independently spelled as atom/quoted/{n}/{n+}/zero-padded {0..0n}/{0..0n+} (literals possibly sent before the continuation request, chunked anywhere), random case of command words, flags and attributes; tagged results, untagged data and final mailbox dumps must be equal, and every name reported by LIST/LSUB/STATUS must decode, with the harness\'s own decoder, to a name that was sent. The round-trip clause is checked by direct calls to the parse classes on seeded values - no simulator is involved in that clause.',
         'Trusted: simulator determinism for the pairing; only canonical modified-UTF-7 and no extra spacing are generated.'),
})
CHECKS.update({
 'C04': ('exploration', '4/C04', 'seeded multi-session histories with an observer taking STATUS + token dumps after every step; UID book-keeping per (MAILBOXID, UIDVALIDITY)',
         'Seeded histories of APPEND/COPY/MOVE/EXPUNGE/RENAME/DELETE+CREATE by 1-3 sessions over three mailboxes (expunge-highest-then-add, concurrent appenders) run in the simulator; after every step an observer records STATUS and a dump with message tokens of every mailbox, and a ledger keyed by mailbox identity and UIDVALIDITY checks strict increase, non-reuse over the whole history, UIDNEXT bounds in both directions, and APPENDUID/COPYUID count, order and token pairing.',
         'Trusted: MAILBOXID as identity. On maildir: deliveries by a delivery agent, another process holding the UID-list lock, STATUS/SELECT answered inside a step judged against the messages they count; 12% of the cases are crash-image histories (the C15 engine) judged for UIDs after the restart.'),
 'C14': ('fault_enumeration', '4/C14', 'per base case: one fault-free run to count scheduler moves, then one deterministic re-run per fault kind x position (exhaustive per case); token-conservation oracle on probe dumps',
         'For each seeded base case (MOVE / COPY / multi-message APPEND / EXPUNGE, optionally with a second session acting in the same step, every lock and drain a real suspension point) the target step is executed fault-free to count its scheduler moves N, then the identical case is re-executed once for every fault kind (task cancellation, connection reset, client EOF) at every position 0..N. Probe dumps before and after decide: no token lost, APPEND all-or-nothing, completed MOVE in exactly one mailbox, NO/BAD changes nothing.',
         'Determinism is what makes "position k of the same execution" meaningful. On the dict backend the interesting windows exist only under lock_yield; on maildir every storage call of the target step that needs disk space fails once with ENOSPC (exhaustive per case); process kill lives in C15.'),
})
CHECKS.update({
 'C08': ('exploration', '4/C08', 'seeded hostile mailbox names against the maildir backend (both layouts) under a file-system interposer; path-confinement monitor + before/after tree hashes',
         'The maildir backend runs on a real tmpfs tree behind SimFS, an interposer that logs every file-system call together with the connection it was made for. Seeded commands with hostile mailbox names, references and patterns are issued by one user while a second user and a foreign directory sit beside it; every path touched for the acting connection must stay inside that user\'s directory (strictly inside for remove/rmdir/rename), and the other user\'s tree, the credential files, the foreign directory and the other user\'s own view must be unchanged. The dict backend gets the black-box part with two users.',
         'Trusted: SimFS sees every call because the names os/open/NamedTemporaryFile are substituted in mailbox (stdlib) and the pymap.backend.maildir modules; anything reaching the file system by another route would be missed. Mutations outside the scratch tree are blocked and reported.'),
})
CHECKS.update({
 'C15': ('fault_enumeration', '4/C15', 'per sampled history: a crash image (copy of the real store) before every mutating file-system operation, each restarted with a fresh backend and read completely; acknowledged-effects oracle',
         'Sampled histories of maildir commands run in the simulator on a real tmpfs tree behind the SimFS interposer, which copies the store before every mutating file-system operation of the history (open for writing, close of a written file, rename, remove, mkdir, rmdir, link, utime) - every prefix of the operation trace, exhaustive per history - plus the clean-stop image. Each image is restarted with a brand-new Login/Config/session and a fresh virtual clock and read through the real server; the recovered state must lie between the state after the acknowledged commands and the state had the in-flight command completed: acknowledged messages present with intact bytes, flags and UIDs (unless UIDVALIDITY changed), no acknowledged UID denoting another message, acknowledged mailboxes and subscriptions present, nothing half-written, control files readable; both layouts and an EXDEV configuration.',
         'Crash = killed process (completed system calls persist); power-loss semantics are not modelled. One session per history, so one command is in flight at each crash point. Trusted: the C10 reference model for the expected states and SimFS seeing every file-system call.'),
})
NOT_YET = {}
def main():
    props = [json.loads(l) for l in open(os.path.join(ROOT, 'properties.jsonl'))]
    checks = []
    na = []
    for p in props:
        pid = p['id']
        if pid in CHECKS:
            level, ref, tech, text, note = CHECKS[pid]
            checks.append({
                'property_id': pid,
                'quick_cmd': './check %s --tier quick' % pid,
                'thorough_cmd': './check %s --tier thorough' % pid,
                'evidence_file': 'evidence/%s.json' % pid,
                'replay_cmd_template': './check %s --replay {path}' % pid,
                'engine': 'pymap-sim',
                'level_claimed': {'category': level, 'text': text, 'design_ref': 'DESIGN.md section ' + ref},
                'level_note': note,
                'technique': 'deterministic simulation with fault injection: ' + tech})
        else:
            na.append({'property_id': pid, 'reason': NOT_YET.get(pid, 'check not built yet in this round (planned, see DESIGN.md section 4); not claimed until its check exists')})
    man = {
     'version': 1,
     'setup_cmd': './setup.sh',
     'hooks': {'guard': 'PYMAP_VERIF', 'enable': 'none needed: the harness substitutes module-level names (time, WeakSet, asyncio.Lock alias, ConnectionState, os/open for maildir) from outside; /repo is imported from its working tree via the editable install in /venv',
               'baseline_off_cmd': 'cd /repo && /venv/bin/python -m pytest -ra -q -p no:cacheprovider --timeout=900 --continue-on-collection-errors',
               'source_commits': [], 'add_only': True},
     'engines': [{'name': 'pymap-sim', 'path': 'sim/', 'serves_properties': sorted(CHECKS),
                  'kind_free_text': 'virtual-time asyncio loop + in-memory streams + seeded scheduler driving the real pymap server; strict response parser, shadow client and reference models as oracles; seeded search with shrinking and replay files'}],
     'checks': checks,
     'not_applicable': na,
     'notes': 'Exit codes: 0 held (KNOWN-FINDING lines allowed), 1 VIOLATION, 2 harness error. Genuine defects repaired in /repo are listed as fixed in known_findings.json.'}
    json.dump(man, open(os.path.join(ROOT, 'MANIFEST.json'), 'w'), indent=1)
    try:
        import jsonschema
        jsonschema.validate(man, json.load(open('/root/.vp/MANIFEST.schema.json')))
    except ImportError:
        print('(jsonschema not importable here; validate with python3-vt)')
    print('MANIFEST ok:', len(checks), 'checks,', len(na), 'not claimed')
if __name__ == '__main__':
    main()
