import json,sys
d=json.load(open(sys.argv[1]))
print(d['violation'])
for s in d['case']['steps']:
    for a in s['actions']:
        if 'msgs' in a:
            for m in a['msgs']: m['data']=m['data'][:10]
    print(json.dumps(s)[:700])
print(d['case']['config'])
n=int(sys.argv[2]) if len(sys.argv)>2 else 80
skip=sys.argv[3:] 
print('\n'.join(x for x in d['trace'][-n:] if not any(k in x for k in skip)))
