"""tools_meta.py <seeded-name> <property> <needs text> : set the descriptive fields of seeded/<name>/meta.json"""
import json, os, sys
name, prop, needs = sys.argv[1], sys.argv[2], sys.argv[3]
p = os.path.join(os.path.dirname(os.path.abspath(__file__)), 'seeded', name, 'meta.json')
meta = json.load(open(p)) if os.path.exists(p) else {}
meta.update({'property': prop, 'needs_to_manifest': needs,
             'origin': 'independent sub-agent given only the property text and a scratch worktree'})
json.dump(meta, open(p, 'w'), indent=1)
print(json.dumps(meta, indent=1)[:600])
