"""Print the sensitivity table (markdown) from seeded/*/meta.json."""
import json
import os

ROOT = os.path.dirname(os.path.abspath(__file__))
base = os.path.join(ROOT, 'seeded')
print('| seeded change | breaks | needs | checks that catch it (quick tier) | '
      'notes |')
print('|---|---|---|---|---|')
for name in sorted(os.listdir(base)):
    p = os.path.join(base, name, 'meta.json')
    if not os.path.exists(p):
        continue
    m = json.load(open(p))
    runs = m.get('checks_run', {})
    missed = [k for k, v in runs.items() if v.startswith('missed')
              and k not in m.get('detected_by', [])]
    note = m.get('table_note', '')
    if missed:
        note = ('not by ' + ', '.join(missed) + '. ' + note).strip()
    if m.get('base'):
        note = ('applied to base %s. ' % m['base'] + note).strip()
    print('| %s | %s | %s | %s | %s |' % (
        name, m.get('property', '?'),
        m.get('needs_to_manifest', '').replace('|', '/'),
        ', '.join(m.get('detected_by', [])) or 'NONE', note))
