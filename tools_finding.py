"""Append a 'fixed' entry to known_findings.json.

  python tools_finding.py <id> <property> <commit> <clause> "<what failed>" [key=value ...]
"""
import json
import sys

fid, prop, commit, clause, what = sys.argv[1:6]
match = {'clause': clause}
for kv in sys.argv[6:]:
    k, v = kv.split('=', 1)
    match[k] = v
path = 'known_findings.json'
data = json.load(open(path))
assert all(f['id'] != fid for f in data['findings']), 'duplicate id'
data['findings'].append({
    'id': fid, 'status': 'fixed', 'property': prop, 'commit': commit,
    'line': 'fixed: property=%s %s %s' % (prop, commit, what),
    'match': match, 'what': what})
json.dump(data, open(path, 'w'), indent=1)
print('added', fid)
