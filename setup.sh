#!/bin/sh
# Nothing is installed: the checks need only /venv (python 3.12 with pymap
# editable from /repo) and the standard library.
set -e
cd "$(dirname "$0")"
mkdir -p evidence replays
/venv/bin/python -c "import pymap, sys; assert pymap.__file__.startswith('/repo/'), pymap.__file__; print('pymap from', pymap.__file__)"
