"""Generator helpers shared by the profiles."""

from __future__ import annotations

import random

from sim.engine import make_message

SYSTEM_FLAGS = ['\\Seen', '\\Answered', '\\Flagged', '\\Deleted', '\\Draft']
USER = {'name': 'user', 'password': 'pass'}
USER2 = {'name': 'other', 'password': 'secret2'}

BUGGIFY_KINDS = ['lock_yield', 'drain_yield', 'weakset', 'lock_stall',
                 'timer_ties']


def pick_buggify(rng: random.Random, kinds=BUGGIFY_KINDS) -> list[str]:
    return [k for k in kinds
            if rng.random() < (0.25 if k == 'lock_stall' else 0.5)]


def seq_set(rng: random.Random, maxn: int = 8) -> str:
    """A sequence-number set of some shape (may be out of range)."""
    def num():
        r = rng.random()
        if r < 0.15:
            return '*'
        if r < 0.25:
            return str(rng.randint(maxn, maxn + 3))
        return str(rng.randint(1, max(1, maxn)))
    parts = []
    for _ in range(rng.choice([1, 1, 1, 2, 3])):
        if rng.random() < 0.45:
            parts.append(num() + ':' + num())
        else:
            parts.append(num())
    return ','.join(parts)


def uid_set(rng: random.Random, lo: int = 101, hi: int = 110) -> str:
    def num():
        r = rng.random()
        if r < 0.15:
            return '*'
        if r < 0.22:
            return str(rng.randint(1, lo))
        if r < 0.3:
            return str(rng.randint(hi, hi + 5))
        return str(rng.randint(lo, max(lo, hi)))
    parts = []
    for _ in range(rng.choice([1, 1, 1, 2, 3])):
        if rng.random() < 0.45:
            parts.append(num() + ':' + num())
        else:
            parts.append(num())
    return ','.join(parts)


def flag_list(rng: random.Random, keywords=(), allow_recent=True) -> list[str]:
    pool = list(SYSTEM_FLAGS) + list(keywords)
    if allow_recent and rng.random() < 0.1:
        pool.append('\\Recent')
    n = rng.choice([0, 1, 1, 1, 2, 2, 3])
    return rng.sample(pool, min(n, len(pool)))


class Tokens:
    """Hands out unique message tokens while a case is generated."""

    def __init__(self, start: int = 1) -> None:
        self.next = start

    def take(self) -> int:
        t = self.next
        self.next += 1
        return t


def append_action(rng: random.Random, tokens: Tokens, sess: int,
                  mailbox: str = 'INBOX', multi_max: int = 2,
                  keywords=(), pad: bool = False) -> dict:
    n = 1 if rng.random() < 0.7 else rng.randint(2, max(2, multi_max))
    msgs = []
    for _ in range(n):
        tok = tokens.take()
        msg = {'data': make_message(
            tok, size_pad=rng.choice([0, 0, 10, 200]) if pad else 0),
            'token': tok}
        if rng.random() < 0.6:
            msg['flags'] = flag_list(rng, keywords)
        msgs.append(msg)
    act = {'sess': sess, 'kind': 'append', 'mailbox': mailbox, 'msgs': msgs,
           'literal': rng.choice(['lit', 'litplus'])}
    if act['literal'] == 'lit' and rng.random() < 0.2:
        act['eager'] = True
    return act


def setup_steps(n_sessions: int, mailbox: str = 'INBOX', others=('Other',),
                initial: list | None = None, select: bool = True,
                user: dict = USER, examine=()) -> list[dict]:
    """connect + login all sessions, create side mailboxes, populate, select."""
    steps = [{'actions': [{'sess': i, 'kind': 'connect'}
                          for i in range(n_sessions)], 'sched_seed': None},
             {'actions': [{'sess': i, 'kind': 'login', 'user': user['name'],
                           'password': user['password']}
                          for i in range(n_sessions)], 'sched_seed': None}]
    for name in others:
        steps.append({'actions': [{'sess': 0, 'kind': 'create',
                                   'mailbox': name}], 'sched_seed': None})
    if mailbox != 'INBOX' and mailbox not in others:
        steps.append({'actions': [{'sess': 0, 'kind': 'create',
                                   'mailbox': mailbox}], 'sched_seed': None})
    for act in initial or ():
        steps.append({'actions': [act], 'sched_seed': None})
    if select:
        steps.append({'actions': [
            {'sess': i, 'kind': 'examine' if i in examine else 'select',
             'mailbox': mailbox} for i in range(n_sessions)],
            'sched_seed': None})
    return steps


def maybe_seed(rng: random.Random, p_none: float = 0.25):
    return None if rng.random() < p_none else rng.getrandbits(32)


def backends(default=('dict',)):
    """Backends a profile samples from; PYMAP_VERIF_BACKENDS overrides (used
    while developing, e.g. PYMAP_VERIF_BACKENDS=maildir)."""
    import os
    env = os.environ.get('PYMAP_VERIF_BACKENDS')
    if env:
        return tuple(x for x in env.split(',') if x)
    return tuple(default)


def finish_cfg(case: dict, rng: random.Random) -> dict:
    """Backend-specific knobs that every generator shares."""
    cfg = case['config']
    if cfg.get('backend') == 'maildir':
        cfg.setdefault('layout', rng.choice(['++', 'fs']))
        if rng.random() < 0.5:
            cfg.setdefault('keywords', ['$Label1', 'custom', '$Junk'])
        # generators write UID sets for the dict backend (first UID 101)
        import re

        def shift(text):
            return re.sub(r'\d+', lambda m: str(int(m.group()) - 100)
                          if 100 < int(m.group()) < 1000 else m.group(),
                          text)
        for step in case.get('steps', ()):
            for act in step.get('actions', ()):
                if act.get('uid') and isinstance(act.get('set'), str):
                    act['set'] = shift(act['set'])
                if isinstance(act.get('uid_set'), str):
                    act['uid_set'] = shift(act['uid_set'])
                if act.get('kind') == 'search' and \
                        isinstance(act.get('keys'), str):
                    act['keys'] = shift(act['keys'])
        if rng.random() < 0.3 and 'listdir' not in cfg.get('buggify', []):
            cfg.setdefault('buggify', []).append('listdir')
    return case
