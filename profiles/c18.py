"""C18 - how an argument is spelled does not change what it means."""

from __future__ import annotations

import copy
import hashlib
import random
from datetime import datetime, timedelta, timezone

from sim.client import mutf7_decode
from sim.driver import Profile
from sim.engine import Ctx, Violation, make_message
from .c01 import C01
from .common import USER

NAMES = ['Work', 'a b', 'q"t', 'b\\s', 'a&b', 'é', '日本語', 'Déjà vu/été',
         'x/y', 'inbox', 'INBOX', 'Inbox', '&', 'a&é', 'é&', 'é&x', '~t',
         'p(q)', 'st]r', '{7}', 'tab\there', 'nl\nhere', 'x' * 70,
         # every ATOM-CHAR that is not a letter or digit, in atom position
         'a}b', '}', "!#$&'+,-.", ':;<=>?@', '[^_`|~', 'a|b~c']
SPELLINGS = ['atom', 'quoted', 'lit', 'litplus', 'litplus0', 'lit0']
NEEDLES = ['hello', 'message', 'a b', 'x"y', 'T1T', 'sender', 'a}b', 'x|y',
           '~z']


def case_variant(word: str, rng: random.Random) -> str:
    r = rng.randrange(3)
    if r == 0:
        return word.lower()
    if r == 1:
        return word.upper()
    return ''.join(c.upper() if rng.random() < 0.5 else c.lower()
                   for c in word)


def gen_program(rng: random.Random) -> list[dict]:
    prog = [{'kind': 'login', 'user': 'user', 'password': 'pass'}]
    names = []
    tok = 0
    for _ in range(rng.randint(5, 20)):
        kind = rng.choice(['create', 'create', 'select', 'append', 'append',
                           'status', 'list', 'lsub', 'rename', 'delete',
                           'subscribe', 'copy', 'search', 'store', 'fetch',
                           'examine', 'close'])
        name = rng.choice(names) if names and rng.random() < 0.7 \
            else rng.choice(NAMES)
        act = {'kind': kind}
        if kind == 'create':
            names.append(name)
            act['mailbox'] = name
        elif kind in ('select', 'examine', 'status', 'delete', 'subscribe'):
            act['mailbox'] = name
        elif kind == 'append':
            tok += 1
            act['mailbox'] = name
            # (some well above the 4096 bytes ordinary strings may have)
            act['msgs'] = [{'data': make_message(
                tok, size_pad=rng.choice([0, 0, 0, 5000, 70000])),
                'flags': ['\\Seen']}]
        elif kind in ('list', 'lsub'):
            act['ref'] = ''
            act['pattern'] = rng.choice(['*', '%', name, name[:2] + '*'])
        elif kind == 'rename':
            act['mailbox'] = name
            act['to'] = rng.choice(NAMES)
            names.append(act['to'])
        elif kind == 'copy':
            act['set'] = '1:*'
            act['mailbox'] = name
        elif kind == 'search':
            r = rng.random()
            if r < 0.5:
                act['keys'] = [rng.choice(['SUBJECT', 'FROM', 'TEXT',
                                           'BODY']),
                               ['str', rng.choice(NEEDLES)]]
            elif r < 0.75:
                # date = date-text / DQUOTE date-text DQUOTE
                act['keys'] = [rng.choice(['SINCE', 'BEFORE', 'ON',
                                           'SENTSINCE', 'SENTBEFORE',
                                           'SENTON']),
                               ['date', rng.choice(['15-Jan-2024',
                                                    '1-Jan-2024',
                                                    '16-Jan-2024'])]]
            else:
                act['keys'] = ['HEADER',
                               ['str', rng.choice(['Subject', 'X-Token',
                                                   'from'])],
                               ['str', rng.choice(NEEDLES + [''])]]
        elif kind == 'store':
            act['set'] = '1:*'
            act['op'] = rng.choice(['+', '-'])
            act['flags'] = [rng.choice(['\\Seen', '\\Flagged', '\\Deleted'])]
        elif kind == 'fetch':
            act['set'] = '1:*'
            if rng.random() < 0.5:
                # header field names are astrings
                act['hdr'] = [rng.choice(['', '.NOT']), rng.sample(
                    ['Subject', 'X-Token', 'From', 'date', 'TO', 'X-None'],
                    rng.randint(1, 3))]
                act['attrs'] = None
            else:
                act['attrs'] = rng.choice([['FLAGS'], ['UID', 'FLAGS'],
                                           ['RFC822.SIZE']])
        prog.append(act)
    return prog


def spell(prog: list[dict], rng: random.Random, plain: bool) -> list[dict]:
    """One concrete wire spelling of the symbolic program."""
    out = []
    for act in prog:
        a = copy.deepcopy(act)
        if not plain:
            a['spelling'] = rng.choice(SPELLINGS)
            a['spelling2'] = rng.choice(SPELLINGS)
            if a['kind'] in ('select', 'examine', 'create', 'delete',
                             'status', 'list', 'lsub', 'rename', 'subscribe',
                             'copy', 'store', 'fetch', 'search', 'close',
                             'login', 'append', 'noop', 'check', 'expunge'):
                a['word'] = case_variant(a['kind'], rng)
            if a['kind'] == 'append':
                a['literal'] = rng.choice(['lit', 'litplus'])
                if rng.random() < 0.3:
                    a['eager'] = True
            if a['kind'] == 'search':
                keys = [case_variant(a['keys'][0], rng)]
                for typ, val in a['keys'][1:]:
                    if typ == 'date':
                        keys.append(val if rng.random() < 0.5
                                    else ['quoted', val])
                    elif val and rng.random() < 0.25 and \
                            all(c.isalnum() or c == '-' for c in val):
                        keys.append(val)              # as an atom
                    else:
                        keys.append([rng.choice(['quoted', 'lit',
                                                 'litplus']), val])
                a['keys'] = keys
            if a['kind'] == 'store':
                a['flags'] = [case_variant(f, rng) for f in a['flags']]
            if a['kind'] == 'fetch' and a.get('hdr'):
                a['attrs'] = header_fields(a['hdr'], rng)
            elif a['kind'] == 'fetch':
                a['attrs'] = [case_variant(x, rng) for x in a['attrs']]
            if a.get('mailbox', '').upper() == 'INBOX':
                a['mailbox_raw'] = case_variant('inbox', rng)
            if rng.random() < 0.4:
                a['chunk_seed'] = rng.getrandbits(32)
        else:
            a['spelling'] = 'auto'
            if a['kind'] == 'append':
                a['literal'] = 'litplus'
            if a['kind'] == 'fetch' and a.get('hdr'):
                a['attrs'] = header_fields(a['hdr'], None)
            if a['kind'] == 'search':
                a['keys'] = [a['keys'][0]] + [
                    val if typ == 'date' else ['quoted', val]
                    for typ, val in a['keys'][1:]]
        out.append(a)
    return out


def header_fields(hdr, rng) -> str:
    """BODY.PEEK[HEADER.FIELDS[.NOT] (...)] with every field name spelled
    as atom, quoted string or non-synchronizing literal (plain: atoms)."""
    suffix, names = hdr
    parts = []
    for name in names:
        how = rng.choice(['atom', 'quoted', 'litplus']) if rng else 'atom'
        if rng is not None:
            name = case_variant(name, rng)
        if how == 'atom':
            parts.append(name)
        elif how == 'quoted':
            parts.append('"%s"' % name)
        else:
            parts.append('{%d+}\r\n%s' % (len(name), name))
    return 'BODY.PEEK[HEADER.FIELDS%s (%s)]' % (suffix, ' '.join(parts))


def normal(resp) -> tuple:
    data = resp.data
    if resp.name in (b'LIST', b'LSUB') and data is not None:
        attrs, sep, raw = data
        data = (tuple(sorted(attrs)), sep, bytes(raw))
    return (resp.kind, resp.name, resp.num, repr(resp.code), repr(data),
            resp.text if resp.kind != 'cont' else b'')


def run_spelling(case: dict, which: str, trace: bool):
    cfg = dict(case['config'])
    ctx = Ctx({'config': cfg, 'seed': case.get('seed', 0), 'steps': []},
              trace=trace)
    transcript = []
    listed = []
    try:
        ctx.run_step({'actions': [{'sess': 0, 'kind': 'connect'}]}, -1)
        cl = ctx.clients[0]
        for i, act in enumerate(case[which]):
            ctx.step_index = i
            seed = act.pop('sched_seed', None)
            cmds = ctx.run_step({'actions': [dict(act, sess=0)],
                                 'sched_seed': seed}, i)
            cmd = cmds[0]
            if cmd is None:
                transcript.append(('skipped',))
                continue
            cl.pending.clear()
            entry = [cmd.cond] + [normal(r) for r in cmd.untagged]
            if cmd.result is not None:
                entry.append(normal(cmd.result)[3:])
            transcript.append(tuple(entry))
            for r in cmd.untagged:
                if r.name in (b'LIST', b'LSUB', b'STATUS'):
                    raw = r.data[2] if r.name != b'STATUS' else r.data[0]
                    listed.append(bytes(raw))
            if cl.conn.done:
                break
        dumps = {}
        names = sorted({a['mailbox'] for a in case[which] if 'mailbox' in a}
                       | {a['to'] for a in case[which] if 'to' in a}
                       | {'INBOX'})
        for name in names:
            d = ctx.probe(name)
            dumps[name] = None if d is None else [
                (u, tuple(sorted(r['flags'])), r['size'])
                for u, r in sorted(d['msgs'].items())]
        ctx.finish()
        res = ctx.result()
        res['transcript'] = transcript
        res['dumps'] = dumps
        res['listed'] = listed
        if trace:
            res['trace'] = ctx.world.trace
        return res
    finally:
        ctx.close()


# ---- round trip of parsed values (direct calls, no simulator) -----------------

def roundtrip_values(rng: random.Random) -> list:
    vals = []
    for _ in range(12):
        k = rng.randrange(7)
        if k == 0:
            parts = []
            for _ in range(rng.randint(1, 4)):
                a = rng.choice(['*', str(rng.randint(1, 999999))])
                if rng.random() < 0.5:
                    a += ':' + rng.choice(['*', str(rng.randint(1, 99999))])
                parts.append(a)
            vals.append(['SequenceSet', ','.join(parts)])
        elif k == 1:
            vals.append(['Flag', rng.choice(['\\Seen', '\\seen', '\\ANSWERED',
                                             '$Junk', 'custom', '\\Foo',
                                             'a.b', '\\*'])])
        elif k == 2:
            dt = datetime(rng.randint(1990, 2037), rng.randint(1, 12),
                          rng.randint(1, 28), rng.randint(0, 23),
                          rng.randint(0, 59), rng.randint(0, 59),
                          tzinfo=timezone(timedelta(
                              minutes=rng.choice([0, 330, -480, 765, -690]))))
            text = '%2d-%s-%d %02d:%02d:%02d %s' % (
                dt.day, dt.strftime('%b'), dt.year, dt.hour, dt.minute,
                dt.second, dt.strftime('%z'))
            vals.append(['DateTime', '"' + text + '"'])
        elif k == 3:
            body = ''.join(rng.choice('ab c\\"{}()%*é\x7f\t')
                           for _ in range(rng.randint(0, 12)))
            q = body.replace('\\', '\\\\').replace('"', '\\"')
            vals.append(['QuotedString', '"' + q + '"'])
        elif k == 4:
            body = ''.join(chr(rng.randrange(256))
                           for _ in range(rng.randint(0, 20)))
            vals.append(['LiteralString', '{%d+}\r\n%s' % (len(body), body)])
        elif k == 5:
            vals.append(['AString', rng.choice(
                ['atom', '"quoted str"', '"a\\"b"', '{3+}\r\nabc', '~x',
                 'a]b', '""', '"{5}"', '{0+}\r\n'])])
        else:
            from sim.client import mutf7_encode, enc_astring
            name = rng.choice(NAMES)
            vals.append(['Mailbox', enc_astring(
                mutf7_encode(name), rng.choice(['auto', 'quoted',
                                                'litplus'])).decode('latin-1')])
    return vals


def check_roundtrip(vals: list) -> list:
    import re
    from pymap.parsing import Params
    from pymap.parsing.state import ParsingState
    from pymap.parsing.primitives import QuotedString, LiteralString
    from pymap.parsing.specials import (SequenceSet, Flag, DateTime, AString,
                                        Mailbox)
    classes = {'SequenceSet': SequenceSet, 'Flag': Flag, 'DateTime': DateTime,
               'QuotedString': QuotedString, 'LiteralString': LiteralString,
               'AString': AString, 'Mailbox': Mailbox}
    out = []
    tail = b' tail'
    for kind, text in vals:
        cls = classes[kind]
        raw = text.encode('latin-1')
        try:
            v1, rest1 = cls.parse(memoryview(raw + tail), Params())
        except Exception as exc:
            continue       # not a value of this type: nothing to round-trip
        if bytes(rest1) != tail:
            out.append((kind, 'consumed', 'parsing %r left %r, expected %r'
                        % (raw, bytes(rest1), tail)))
            continue
        ser = bytes(v1)
        try:
            m = re.match(rb'~?\{\d+\}\r\n', ser)
            if m is not None:
                # the serialised form is a synchronizing literal: the data
                # after the marker arrives as a continuation
                state = ParsingState(continuations=[
                    memoryview(ser[m.end():] + tail)])
                v2, rest2 = cls.parse(memoryview(ser[:m.end()]),
                                      Params(state))
            else:
                v2, rest2 = cls.parse(memoryview(ser + tail), Params())
        except Exception as exc:
            out.append((kind, 'reparse', '%r serialises to %r which does '
                        'not parse (%s)' % (raw, ser, type(exc).__name__)))
            continue
        if bytes(rest2) != tail:
            out.append((kind, 'own-bytes', '%r serialises to %r; parsing '
                        'that left %r instead of %r'
                        % (raw, ser, bytes(rest2), tail)))
        elif v2.value != v1.value:
            out.append((kind, 'value', '%r -> %r -> %r' % (raw, v1.value,
                                                           v2.value)))
    return out


class C18(Profile):
    id = 'C18'
    level = 'exploration'
    quick_budget_s = 40.0
    thorough_budget_s = 400.0
    batch = 15
    rule = ('metamorphic pairs: a symbolic program of 5-20 commands (LOGIN, '
            'CREATE/SELECT/EXAMINE/APPEND/STATUS/LIST/LSUB/RENAME/DELETE/'
            'SUBSCRIBE/COPY over 23 mailbox names incl. non-ASCII, quote, '
            'backslash, &, tab/newline, case variants of INBOX; SEARCH '
            'strings; STORE flags; FETCH attributes) is run twice from '
            'identical initial state: once in plain spelling, once with '
            'every astring independently as atom/quoted/{n}/{n+}, command '
            'words, flags and attributes in random case, literals possibly '
            'sent before the continuation request, seeded chunking. Oracle: '
            'tagged results and untagged data equal modulo tags, final '
            'mailbox dumps equal, every name in LIST/LSUB/STATUS decodes '
            '(harness decoder) to a name that was sent. Plus, per case, 12 '
            'parsed values (sequence sets, flags, date-times, quoted, '
            'literal, astring, mailbox) are serialised and re-parsed by '
            'direct calls (no simulator in that clause). Non-trivial = >= 3 '
            'commands compared.')
    assumptions = C01.assumptions + [
        'only canonical modified-UTF-7 spellings are generated (RFC 3501 '
        'forbids the alternatives)', 'no extra spacing is generated: the '
        'grammar allows none']
    components = C01.components

    def gen(self, rng, tier):
        prog = gen_program(rng)
        from .common import backends
        backend = rng.choice(backends(('dict', 'dict', 'dict', 'maildir')))
        cfg_extra = {'layout': rng.choice(['++', 'fs'])} \
            if backend == 'maildir' else {}
        return {'config': dict({'backend': backend, 'users': [USER],
                                'bad_command_limit': 0, 'buggify': []},
                               **cfg_extra),
                'a': spell(prog, rng, True), 'b': spell(prog, rng, False),
                'values': roundtrip_values(rng), 'steps': []}

    def run(self, case, trace=False):
        ra = run_spelling(case, 'a', False)
        rb = run_spelling(case, 'b', trace)
        viol = []

        def violate(clause, detail, **sig):
            sig.setdefault('backend', case['config'].get('backend', 'dict'))
            viol.append(Violation(property='C18', clause=clause,
                                  detail=detail, sig=sig, step=0, seq=0))
        ta, tb = ra['transcript'], rb['transcript']
        for i, (ea, eb) in enumerate(zip(ta, tb)):
            if ea != eb:
                act_a, act_b = case['a'][i], case['b'][i]
                violate('result', 'command %d %s: plain spelling gave %r, '
                        'spelling %r/%r word=%r gave %r' % (
                            i, act_a['kind'], ea[:3], act_b.get('spelling'),
                            act_b.get('spelling2'), act_b.get('word'),
                            eb[:3]), kind=act_a['kind'])
                break
        if not viol and ra['dumps'] != rb['dumps']:
            violate('effect', 'final mailbox contents differ between the two '
                    'spellings: %r vs %r' % (ra['dumps'], rb['dumps']))
        sent = {a.get('mailbox') for a in case['a']} | \
            {a.get('to') for a in case['a']} | {'INBOX'}
        sent_norm = {('INBOX' if n and n.upper() == 'INBOX' else n)
                     for n in sent if n is not None}
        anc = set()
        for n in sent_norm:
            parts = n.split('/')
            for k in range(1, len(parts)):
                anc.add('/'.join(parts[:k]))
        for raw in rb['listed']:
            try:
                name = mutf7_decode(raw)
            except Exception:
                violate('mutf7', 'listed name %r is not valid modified '
                        'UTF-7' % raw)
                break
            if name not in sent_norm and name not in anc:
                violate('mutf7', 'listed name %r decodes to %r, which was '
                        'never sent (sent: %s)' % (raw, name,
                                                   sorted(sent_norm)))
                break
        if not viol:
            for kind, clause, detail in check_roundtrip(case.get('values',
                                                                 [])):
                violate('roundtrip.' + clause, '%s: %s' % (kind, detail),
                        type=kind)
                break
        rb['violations'] = viol
        rb['digest'] = hashlib.sha256((ra['digest'] + rb['digest'])
                                      .encode()).hexdigest()
        rb['nontrivial'] = len(tb) >= 3
        rb['stats']['roundtrip_values'] = len(case.get('values', []))
        rb.pop('transcript', None)
        rb.pop('dumps', None)
        rb.pop('listed', None)
        return rb


PROFILE = C18()
