"""C03 - message bytes are stored and returned verbatim."""

from __future__ import annotations

import random

from sim.client import s
from sim.driver import Profile
from sim.engine import Ctx
from sim.wire import QStr, Lit
from .c01 import C01
from .c06 import hostile_message
from .c07 import echo_message
from .common import USER, maybe_seed


def structured(rng: random.Random) -> bytes:
    """Header block or none; separator CRLFCRLF / LFLF / missing; final
    newline or not; whitespace-only last line; bare CR, NUL, 8-bit; nested
    MIME with and without closing boundary; message/rfc822; base64/QP."""
    nl = rng.choice([b'\r\n', b'\r\n', b'\r\n', b'\n', b'\r'])
    hdrs = rng.choice([
        [],
        [b'Subject: x'],
        [b'From: a@b', b'To: c@d', b'Subject: hello world',
         b'Date: Mon, 15 Jan 2024 12:00:00 +0000'],
        [b'Subject: folded', b' continuation', b'\tmore'],
        [b'X-Bin: \xff\xfe\x00\x01', b'Subject: \xc3\xa9'],
        [b'Content-Type: text/plain; charset=utf-8',
         b'Content-Transfer-Encoding: base64'],
        [b'Content-Type: multipart/mixed; boundary="B"'],
        [b'Content-Type: message/rfc822'],
        [b'Content-Type: multipart/alternative; boundary=xyz', b'MIME-Version:'
         b' 1.0'],
    ])
    sep = rng.choice([nl + nl, nl + nl, nl + nl, nl, b'', b'\n\n', b'\r\n \r\n'])
    ctype = b' '.join(hdrs)
    if b'multipart' in ctype:
        bnd = b'B' if b'"B"' in ctype else b'xyz'
        parts = []
        for i in range(rng.randint(0, 3)):
            ph = rng.choice([b'', b'Content-Type: text/plain' + nl,
                             b'Content-Type: text/html; charset=x' + nl,
                             b'Content-Type: application/octet-stream' + nl +
                             b'Content-Transfer-Encoding: base64' + nl,
                             b'Content-Type: message/rfc822' + nl,
                             b'Content-Type: multipart/mixed; boundary=in' + nl])
            pb = rng.choice([b'part %d' % i + nl, b'', b'aGVsbG8=' + nl,
                             b'Subject: inner' + nl + nl + b'inner' + nl,
                             b'--in' + nl + nl + b'deep' + nl + b'--in--' + nl,
                             b' ' + nl, b'no newline at end'])
            parts.append(b'--' + bnd + nl + ph + nl + pb)
        body = rng.choice([b'', b'preamble' + nl]) + b''.join(parts)
        if rng.random() < 0.75:
            body += b'--' + bnd + b'--' + rng.choice([nl, b'', nl + b'epilogue'])
    elif b'rfc822' in ctype:
        body = rng.choice([b'Subject: inner' + nl + nl + b'inner body' + nl,
                           b'', b'not a message', structured(rng)])
    else:
        lines = [rng.choice([b'line', b'', b' ', b'\t', b'x' * 80,
                             b'\xff\x00\x01', b'=E9=', b'aGVsbG8='])
                 for _ in range(rng.randint(0, 5))]
        body = nl.join(lines)
        body += rng.choice([nl, nl, b'', nl + b' ', nl + b'\t ', b' ',
                            nl + nl, b'\r', b'\n'])
    head = nl.join(hdrs)
    if hdrs and rng.random() < 0.9:
        head += b''
    msg = head + (sep if hdrs else rng.choice([b'', nl, sep])) + body
    return msg


def gen_bytes(rng: random.Random) -> bytes:
    r = rng.random()
    if r < 0.55:
        msg = structured(rng)
    elif r < 0.7:
        msg = hostile_message(rng)
    elif r < 0.85:
        msg = echo_message(rng)
    elif r < 0.92:
        msg = bytes(rng.randrange(256) for _ in range(rng.randint(0, 300)))
    else:
        unit = structured(rng) or b'x'
        msg = (unit * (rng.choice([2000, 20000, 65536]) // len(unit) + 1))[
            :rng.choice([1000, 8191, 8192, 8193, 65535, 65536])]
    for _ in range(rng.choice([0, 0, 0, 1, 2])):
        if msg:
            pos = rng.randrange(len(msg))
            kind = rng.randrange(3)
            if kind == 0:
                msg = msg[:pos] + bytes([rng.randrange(256)]) + msg[pos + 1:]
            elif kind == 1:
                msg = msg[:pos] + msg[pos + 1:]
            else:
                msg = msg[:pos] + rng.choice([b'\r', b'\n', b'\r\n', b'\x00',
                                              b' ', b'{5+}']) + msg[pos:]
    return msg


def twin_bytes(rng: random.Random, msg: bytes) -> bytes:
    """A different message that collides with *msg* under weak notions of
    identity: same length and same additive checksums (Adler-32, Fletcher,
    byte sum), same bytes in another order, same prefix, or the same bytes
    again."""
    b = bytearray(msg)
    kind = rng.randrange(5)
    if kind == 0 and len(b) >= 3:
        # +1 -2 +1 on three adjacent bytes keeps the byte sum and the sum
        # of running sums, hence Adler-32 and Fletcher
        spots = [i for i in range(len(b) - 2)
                 if b[i] < 255 and b[i + 1] >= 2 and b[i + 2] < 255
                 and b[i + 1] - 2 not in (0x0d, 0x0a, 0)
                 and b[i] + 1 not in (0x0d, 0x0a)
                 and b[i + 2] + 1 not in (0x0d, 0x0a)]
        if spots:
            i = rng.choice(spots)
            b[i] += 1
            b[i + 1] -= 2
            b[i + 2] += 1
            return bytes(b)
    if kind == 1 and len(b) >= 2:
        i, j = rng.randrange(len(b)), rng.randrange(len(b))
        b[i], b[j] = b[j], b[i]
        return bytes(b)
    if kind == 2 and b:
        b[-1] = (b[-1] + 1) % 256 or 1
        return bytes(b)
    if kind == 3 and b:
        i = rng.randrange(len(b))
        b[i] = b[i] ^ 0x20 if chr(b[i]).isalpha() else b[i]
        return bytes(b)
    return bytes(b)


def diagnose(want: bytes, got: bytes | None) -> str:
    if got is None:
        return 'nil'
    if got == want:
        return 'equal'
    if got == want[:-1]:
        return 'last-byte-dropped'
    if got == want + b'\n' or got == want + b'\r\n':
        return 'trailing-newline-added'
    if got == want.replace(b'\r\n', b'\n'):
        return 'crlf-to-lf'
    if got.replace(b'\r\n', b'\n') == want.replace(b'\r\n', b'\n'):
        return 'line-endings-changed'
    if want.startswith(got):
        return 'truncated'
    if got.startswith(want):
        return 'extended'
    return 'other'


def gen_bytes_case(rng: random.Random, tier: str, backends=('dict',)) -> dict:
    cfg = {'backend': rng.choice(backends), 'users': [USER], 'buggify': [],
           'bad_command_limit': 0}
    n = rng.choice([1, 1, 1, 2, 2, 3])
    raw = [gen_bytes(rng) for _ in range(n)]
    if n >= 2 and rng.random() < 0.5:
        # near-twins in one store: a server that identifies stored content
        # by something weaker than the bytes hands out the wrong one
        raw[1] = twin_bytes(rng, raw[0])
    msgs = [s(m) for m in raw]
    ranges = []
    for m in msgs:
        ln = len(m)
        rs = []
        for _ in range(rng.randint(1, 4)):
            o = rng.choice([0, 0, 1, max(0, ln - 1), ln, ln + 1,
                            rng.randint(0, max(1, ln)),
                            m.find('\n') + 1 if '\n' in m else 0])
            k = rng.choice([1, 1, 2, max(1, ln - o), max(1, ln - o + 1),
                            rng.randint(1, max(1, ln)), 100000])
            rs.append([o, k])
        ranges.append(rs)
    return {'config': cfg, 'msgs': msgs, 'ranges': ranges,
            'literal': rng.choice(['lit', 'litplus', 'litplus']),
            'multi': n > 1 and rng.random() < 0.5,
            'chunk_seed': rng.getrandbits(32) if rng.random() < 0.5 else None,
            'copy': rng.choice([None, None, 'copy', 'move']),
            'concurrent_seed': maybe_seed(rng, 0.5),
            'steps': [{'m': i} for i in range(n)]}


def _data(cmd, seq, key_prefix: bytes):
    for r in cmd.untagged:
        if r.name == b'FETCH' and r.num == seq:
            for k, v in r.data.items():
                if k.upper().startswith(key_prefix):
                    return v, k
    return None, None


def leaf_parts(struct, prefix=()):
    """(part path, size) of every non-multipart part of a BODYSTRUCTURE."""
    if not isinstance(struct, list) or not struct:
        return
    if isinstance(struct[0], list):
        i = 0
        while i < len(struct) and isinstance(struct[i], list):
            yield from leaf_parts(struct[i], prefix + (i + 1,))
            i += 1
        return
    path = prefix or (1,)
    if len(struct) >= 7 and isinstance(struct[6], int):
        yield path, struct[6]
    if len(struct) >= 10 and isinstance(struct[0], (QStr, Lit)) and \
            struct[0].upper() == b'MESSAGE' and \
            struct[1].upper() == b'RFC822' and isinstance(struct[8], list):
        inner = struct[8]
        if inner and isinstance(inner[0], list):
            yield from leaf_parts(inner, path)
        else:
            yield from leaf_parts(inner, path + (1,))


def run_bytes(case: dict, trace: bool = False) -> dict:
    ctx = Ctx(case, trace=trace)
    checked = 0
    try:
        for sid in (0, 1):
            ctx.run_step({'actions': [{'sess': sid, 'kind': 'connect'}]}, -1)
            ctx.run_step({'actions': [{'sess': sid, 'kind': 'login',
                                       'user': 'user', 'password': 'pass'}]},
                         -1)
        cl = ctx.clients[0]

        def do(action, sid=0, extra=None, seed=None):
            acts = [dict(action, sess=sid)]
            if extra:
                acts.append(extra)
            return ctx.run_step({'actions': acts, 'sched_seed': seed},
                                ctx.step_index)[0]
        do({'kind': 'create', 'mailbox': 'Other'})
        msgs = [m.encode('latin-1') for m in case['msgs']]
        if case.get('multi'):
            c = do({'kind': 'append', 'mailbox': 'INBOX',
                    'literal': case['literal'],
                    'chunk_seed': case.get('chunk_seed'),
                    'msgs': [{'data': m} for m in case['msgs']]})
            ok = c is not None and c.ok
        else:
            ok = True
            for m in case['msgs']:
                c = do({'kind': 'append', 'mailbox': 'INBOX',
                        'literal': case['literal'],
                        'chunk_seed': case.get('chunk_seed'),
                        'msgs': [{'data': m}]})
                ok = ok and c is not None and c.ok
        if not ok:
            # the statement covers byte strings *accepted* by APPEND
            ctx.stat('append_refused')
            ctx.finish()
            res = ctx.result()
            res['violations'] = []
            res['nontrivial'] = False
            return res
        do({'kind': 'select', 'mailbox': 'INBOX'})
        do({'kind': 'select', 'mailbox': 'INBOX'}, 1)
        boxes = [('INBOX', 0)]
        if case.get('copy') and msgs:
            # a second session copies/moves while the first one fetches
            extra = {'sess': 1, 'kind': case['copy'], 'set': '1:*',
                     'mailbox': 'Other'}
            c = do({'kind': 'fetch', 'set': '1:*', 'attrs': ['BODY.PEEK[]']},
                   0, extra, case.get('concurrent_seed'))
            if case['copy'] == 'move':
                boxes = []
            boxes.append(('Other', 0))
            ctx.run_step({'actions': []}, ctx.step_index)

        def bad(clause, detail, diag):
            ctx.violate('C03', clause, detail, sig={'diagnosis': diag})

        for name, _ in boxes:
            if any(v['property'] == 'C03' for v in ctx.violations):
                break
            c = do({'kind': 'select', 'mailbox': name})
            if c is None or not c.ok:
                continue
            if cl.shadow.count != len(msgs):
                bad('count', '%s holds %d messages, %d were appended'
                    % (name, cl.shadow.count, len(msgs)), 'count')
                break
            for i, want in enumerate(msgs):
                ctx.step_index = i
                seq = i + 1
                what = '%s message %d (%d bytes: %r...)' % (
                    name, seq, len(want), want[:40])
                attrs = ['BODY.PEEK[]', 'RFC822.SIZE', 'BODY.PEEK[HEADER]',
                         'BODY.PEEK[TEXT]', 'BODYSTRUCTURE']
                c = do({'kind': 'fetch', 'set': str(seq), 'attrs': attrs})
                if c is None or not c.ok:
                    if c is not None and c.result is not None:
                        ctx.stat('fetch_refused')
                    break
                checked += 1
                got, _ = _data(c, seq, b'BODY[]')
                got = None if got is None else bytes(got)
                if got != want:
                    d = diagnose(want, got)
                    bad('verbatim.body', '%s: BODY[] returned %d bytes %r... '
                        '(%s)' % (what, len(got or b''), (got or b'')[-30:],
                                  d), d)
                    break
                size = [r.data.get(b'RFC822.SIZE') for r in c.untagged
                        if r.name == b'FETCH' and r.num == seq][0]
                if size != len(want):
                    bad('size', '%s: RFC822.SIZE %r' % (what, size),
                        'size%+d' % ((size or 0) - len(want))
                        if abs((size or 0) - len(want)) < 3 else 'size')
                    break
                hdr, _ = _data(c, seq, b'BODY[HEADER]')
                txt, _ = _data(c, seq, b'BODY[TEXT]')
                joined = bytes(hdr or b'') + bytes(txt or b'')
                if joined != want:
                    d = diagnose(want, joined)
                    bad('header+text', '%s: BODY[HEADER] (%d) + BODY[TEXT] '
                        '(%d) gives %r... (%s)' % (
                            what, len(hdr or b''), len(txt or b''),
                            joined[-30:], d), d)
                    break
                c2 = do({'kind': 'fetch', 'set': str(seq),
                         'attrs': ['RFC822']})
                got2, _ = _data(c2, seq, b'RFC822') if c2 and c2.ok \
                    else (None, None)
                if c2 is not None and c2.ok and \
                        (got2 is None or bytes(got2) != want):
                    d = diagnose(want, None if got2 is None else bytes(got2))
                    bad('verbatim.rfc822', '%s: RFC822 differs (%s)'
                        % (what, d), d)
                    break
                for o, k in case['ranges'][i]:
                    c3 = do({'kind': 'fetch', 'set': str(seq),
                             'attrs': ['BODY.PEEK[]<%d.%d>' % (o, k)]})
                    if c3 is None or not c3.ok:
                        continue
                    part, key = _data(c3, seq, b'BODY[]<')
                    exp = want[o:o + k]
                    gotp = b'' if part is None else bytes(part)
                    if gotp != exp:
                        bad('partial', '%s: BODY[]<%d.%d> returned %r, '
                            'expected %r' % (what, o, k, gotp[:40], exp[:40]),
                            'partial-' + diagnose(exp, gotp))
                        break
                if any(v['property'] == 'C03' for v in ctx.violations):
                    break
                struct = [r.data.get(b'BODYSTRUCTURE') for r in c.untagged
                          if r.name == b'FETCH' and r.num == seq][0]
                header_noted = False
                if struct and not isinstance(struct[0], list):
                    # not a multipart: part 1 is the body of the message
                    c6 = do({'kind': 'fetch', 'set': str(seq),
                             'attrs': ['BODY.PEEK[1]']})
                    if c6 is not None and c6.ok:
                        one, _ = _data(c6, seq, b'BODY[1]')
                        if bytes(one or b'') != bytes(txt or b''):
                            bad('part-one', '%s: not a multipart, but '
                                'BODY[1] (%d octets) is not BODY[TEXT] (%d)'
                                % (what, len(one or b''), len(txt or b'')),
                                'part-one')
                            break
                for path, size in list(leaf_parts(struct))[:8]:
                    sect = '.'.join(str(x) for x in path)
                    c4 = do({'kind': 'fetch', 'set': str(seq),
                             'attrs': ['BODY.PEEK[%s]' % sect]})
                    if c4 is None or not c4.ok:
                        continue
                    part, _ = _data(c4, seq, b'BODY[' + sect.encode())
                    plen = len(part or b'')
                    ctx.stat('part_sizes_checked')
                    if plen != size:
                        # is it the size of the part *including* its header?
                        if struct and not isinstance(struct[0], list) \
                                and path == (1,):
                            whole = len(want)
                        else:
                            c5 = do({'kind': 'fetch', 'set': str(seq),
                                     'attrs': ['BODY.PEEK[%s.MIME]' % sect]})
                            mime, _ = _data(c5, seq, b'BODY[') \
                                if c5 is not None and c5.ok else (None, None)
                            whole = plen + len(mime or b'')
                        diag = 'includes-part-header' if size == whole \
                            else 'part-size-other'
                        if diag == 'includes-part-header' and header_noted:
                            # the listed finding, once per message: go on
                            # with the other parts, it must not shadow them
                            continue
                        bad('part-size', '%s: BODYSTRUCTURE announces %d '
                            'octets for part %s, BODY[%s] returns %d (part '
                            'with its header: %d)'
                            % (what, size, sect, sect, plen, whole), diag)
                        if diag == 'includes-part-header':
                            header_noted = True
                            continue
                        break
                if any(v['property'] == 'C03' for v in ctx.violations):
                    break
        ctx.finish()
        res = ctx.result()
        res['violations'] = [v for v in res['violations']
                             if v['property'] == 'C03']
        res['nontrivial'] = checked >= 1
        res['stats']['messages_checked'] = checked
        if trace:
            res['trace'] = ctx.world.trace
        return res
    finally:
        ctx.close()


class C03(Profile):
    id = 'C03'
    BACKENDS = ('dict', 'dict', 'dict', 'maildir')
    level = 'exploration'
    quick_budget_s = 40.0
    thorough_budget_s = 400.0
    batch = 20
    rule = ('1-3 byte strings per case from a structured generator (header '
            'block or none; CRLFCRLF / LFLF / bare-CR / missing separator; '
            'final newline or not; whitespace-only last line; bare CR, NUL, '
            '8-bit; multipart with 0-3 parts with and without closing '
            'boundary; message/rfc822; base64/QP), the C06/C07 hostile '
            'generators, raw bytes, sizes up to 64 KiB, plus 0-2 byte '
            'mutations; with 2-3 messages half of the cases make the second '
            'a near-twin of the first (same Adler-32/byte sums, permuted '
            'bytes, same prefix, case-flipped, identical); '
            'delivered as {n} or {n+} literal with seeded '
            'chunking, singly or as MULTIAPPEND, optionally copied/moved by '
            'a second session while the first fetches. Oracle per message '
            'and per mailbox: BODY.PEEK[], RFC822 = b; RFC822.SIZE = len(b); '
            'BODY[HEADER]+BODY[TEXT] = b; 1-4 partial ranges around 0, len, '
            'len+-1 and line boundaries = b[o:o+n]; every leaf part size in '
            'BODYSTRUCTURE = length of BODY[part]. Seeded input generation '
            'run inside the simulator (the simulator contributes delivery, '
            'storage and the second session). Non-trivial = at least one '
            'accepted message checked.')
    assumptions = C01.assumptions
    components = C01.components

    def gen(self, rng, tier):
        from .common import backends, finish_cfg
        return finish_cfg(gen_bytes_case(
            rng, tier, backends=backends(self.BACKENDS)), rng)

    def run(self, case, trace=False):
        return run_bytes(case, trace)


PROFILE = C03()
