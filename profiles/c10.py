"""C10 - message commands behave as the IMAP reference model says."""

from __future__ import annotations

import random
from datetime import datetime

from sim.driver import Profile
from sim.engine import Ctx, make_message, token_of
from sim.model import MailModel, flags_of, sets_seen, RECENT
from sim.shadow import canon_flag
from .c01 import C01
from .common import (USER, Tokens, flag_list, maybe_seed, pick_buggify,
                     seq_set, setup_steps, uid_set)

TOKEN_ATTR = 'BODY.PEEK[HEADER.FIELDS (X-Token)]'
KEYWORDS = ['$Label1', 'custom', '$Junk']
DATES = ['15-Jan-2024 10:00:00 +0200', ' 1-Feb-2023 23:59:59 -0800',
         '31-Dec-2019 00:00:00 +0000', '29-Feb-2024 12:30:00 +0530',
         ' 1-Jan-0999 00:00:00 +0000', '31-Dec-1969 23:59:59 -1200',
         '19-Jan-2038 03:14:08 +0000', '01-Jan-2020 23:59:59 -0000']
FETCHES = [['FLAGS'], ['UID', 'FLAGS'], ['BODY[]'], ['BODY.PEEK[]'],
           ['RFC822'], ['RFC822.HEADER'], ['RFC822.TEXT'], ['BODY[HEADER]'],
           ['BODY[TEXT]'], ['BODY[1]'], ['BODY.PEEK[TEXT]'],
           ['UID', 'RFC822.SIZE', 'INTERNALDATE'], 'FAST', 'ALL',
           ['BINARY[]'], ['BINARY.PEEK[1]'], ['BINARY.SIZE[1]'],
           ['BODY[HEADER.FIELDS (SUBJECT)]'], ['ENVELOPE'], ['BODYSTRUCTURE']]


def parse_date(text) -> float | None:
    if text is None:
        return None
    if isinstance(text, bytes):
        text = text.decode('latin-1')
    try:
        return datetime.strptime(text.strip(),
                                 '%d-%b-%Y %H:%M:%S %z').timestamp()
    except ValueError:
        return None


def gen_model_case(rng: random.Random, tier: str, backends=('dict',)) -> dict:
    n_passive = rng.choice([0, 0, 1, 2])
    # a third of the programs have a second writer: session 1 changes flags
    # by UID STORE between the first session's commands (strictly one
    # command at a time, so the model stays sequential)
    duo = rng.random() < 0.35
    if duo:
        n_passive = max(1, n_passive)
    n = 1 + n_passive
    tokens = Tokens()
    cfg = {'backend': rng.choice(backends), 'users': [USER],
           'buggify': pick_buggify(rng),
           'buggify_p': rng.choice([0.1, 0.3])}
    steps = setup_steps(n, select=False)
    steps.append({'actions': [{'sess': i, 'kind': 'select',
                               'mailbox': 'INBOX'} for i in range(n)],
                  'sched_seed': None})
    hi, maxn = 101, 1
    selected = 'INBOX'
    for _ in range(rng.randint(5, 40)):
        kind = rng.choices(
            ['append', 'store', 'expunge', 'uidexpunge', 'copy', 'move',
             'fetch', 'reselect', 'noop'],
            [5, 6, 3, 2, 2, 2, 4, 2, 1])[0]
        uid = rng.random() < 0.45
        the_set = uid_set(rng, 101, hi + 1) if uid else seq_set(rng, maxn + 1)
        if duo and rng.random() < 0.3:
            steps.append({'actions': [{'sess': 1, 'kind': 'noop'}],
                          'sched_seed': None})
            flags = ['\\Deleted'] if rng.random() < 0.5 else \
                (flag_list(rng, KEYWORDS, allow_recent=False)
                 or ['\\Flagged'])
            steps.append({'actions': [{
                'sess': 1, 'kind': 'store', 'uid': True,
                'set': uid_set(rng, 101, hi + 1),
                'op': rng.choice(['+', '-', '-', '']), 'flags': flags,
                'interferer': True}], 'sched_seed': None})
        if kind == 'append':
            msgs = []
            for _ in range(1 if rng.random() < 0.7 else rng.randint(2, 3)):
                tok = tokens.take()
                m = {'data': make_message(
                    tok, size_pad=rng.choice([0, 0, 7, 300])), 'token': tok}
                if rng.random() < 0.6:
                    m['flags'] = flag_list(rng)
                if rng.random() < 0.4:
                    m['date'] = rng.choice(DATES)
                msgs.append(m)
            act = {'kind': 'append', 'msgs': msgs,
                   'mailbox': rng.choice(['INBOX', 'INBOX', 'Other', 'inbox',
                                          'Missing']),
                   'literal': rng.choice(['lit', 'litplus'])}
            hi += len(msgs)
            maxn += len(msgs)
        elif kind == 'store':
            act = {'kind': 'store', 'uid': uid, 'set': the_set,
                   'op': rng.choice(['+', '+', '-', '']),
                   'flags': flag_list(rng, KEYWORDS),
                   'silent': rng.random() < 0.3}
            if rng.random() < 0.2:
                # keywords and nothing else: on maildir the flag letters of
                # such a message translate to nothing in a folder without
                # that keyword
                act['flags'] = rng.sample(list(KEYWORDS),
                                          rng.randint(1, min(2, len(KEYWORDS))))
                act['op'] = rng.choice(['', '', '+'])
        elif kind == 'expunge':
            act = {'kind': 'expunge'}
        elif kind == 'uidexpunge':
            act = {'kind': 'expunge', 'uid_set': uid_set(rng, 101, hi + 1)}
        elif kind in ('copy', 'move'):
            # towards the other mailbox most of the time, so that messages
            # travel there and back again
            act = {'kind': kind, 'uid': uid, 'set': the_set,
                   'mailbox': rng.choice(
                       ['Other', 'Other', 'INBOX', 'Missing']
                       if selected == 'INBOX' else
                       ['INBOX', 'INBOX', 'Other', 'Missing'])}
            hi += 3
            maxn += 2
        elif kind == 'fetch':
            act = {'kind': 'fetch', 'uid': uid, 'set': the_set,
                   'attrs': rng.choice(FETCHES)}
        elif kind == 'reselect':
            steps.append({'actions': [{'sess': 0, 'kind': 'close'}],
                          'sched_seed': None})
            selected = rng.choice(['INBOX', 'INBOX', 'Other'])
            act = {'kind': 'select', 'mailbox': selected}
        else:
            act = {'kind': 'noop'}
        act['sess'] = 0
        if rng.random() < 0.3:
            act['chunk_seed'] = rng.getrandbits(32)
        acts = [act]
        for p in range(1, n):
            if rng.random() < 0.4:
                acts.append({'sess': p, 'kind': 'noop'})
        rng.shuffle(acts)
        steps.append({'actions': acts, 'sched_seed': maybe_seed(rng, 0.4)})
    if rng.random() < 0.2:
        # there and back again: messages whose only flags are keywords (on
        # maildir: letters that mean something in INBOX and nothing in the
        # other folder) travel to the other mailbox and return
        def one(act):
            act['sess'] = 0
            steps.append({'actions': [act], 'sched_seed': None})
        away = 'Other' if selected == 'INBOX' else 'INBOX'
        one({'kind': 'append', 'mailbox': selected, 'literal': 'lit',
             'msgs': [{'data': make_message(t), 'token': t}
                      for t in (tokens.take(), tokens.take())]})
        one({'kind': 'store', 'uid': False, 'set': rng.choice(['1:*', '*']),
             'op': '', 'flags': rng.sample(list(KEYWORDS), rng.randint(1, 2)),
             'silent': False})
        one({'kind': rng.choice(['move', 'copy']), 'uid': False,
             'set': rng.choice(['1:*', '*']), 'mailbox': away})
        one({'kind': 'close'})
        one({'kind': 'select', 'mailbox': away})
        one({'kind': rng.choice(['move', 'move', 'copy']), 'uid': False,
             'set': '1:*', 'mailbox': selected})
        one({'kind': 'close'})
        one({'kind': 'select', 'mailbox': selected})
        one({'kind': 'fetch', 'uid': False, 'set': '1:*',
             'attrs': ['FLAGS']})
    case = {'config': cfg, 'steps': steps}
    if duo:
        case['duo'] = True
    return case


def dump_box(ctx: Ctx, name: str) -> dict | None:
    return ctx.probe(name, extra_attrs=(TOKEN_ATTR,))


def dump_tokens(dump: dict) -> dict:
    out = {}
    for uid, rec in dump['msgs'].items():
        tok = None
        for k, v in rec.items():
            if isinstance(k, str) and k.startswith('BODY.PEEK[HEADER.FIELDS'):
                tok = v
        out[uid] = tok
    return out


def compare_box(ctx: Ctx, prop: str, model: MailModel, name: str,
                what: str) -> bool:
    box = model.box(name)
    dump = ctx.probe(name, extra_attrs=())
    if box is None:
        return True
    if dump is None:
        ctx.violate(prop, 'dump', 'mailbox %s cannot be examined after %s'
                    % (name, what))
        return False
    want = [m.uid for m in box.msgs]
    got = dump['order']
    ctx.stat('dumps_compared')
    if want != got:
        ctx.violate(prop, 'contents', 'after %s mailbox %s holds UIDs %s, '
                    'model says %s' % (what, name, got, want))
        return False
    for m in box.msgs:
        rec = dump['msgs'][m.uid]
        have = {canon_flag(f) for f in rec['flags']} - {RECENT}
        want = set(m.flags)
        if ctx.backend == 'maildir' and name != 'INBOX':
            # keywords are defined per folder (dovecot-keywords, pre-seeded
            # for INBOX only): a copy into another folder cannot keep them
            have = {f for f in have if f.startswith(b'\\')}
            want = {f for f in want if f.startswith(b'\\')}
        if have != want:
            ctx.violate(prop, 'flags', 'after %s UID %d of %s has %s, model '
                        'says %s' % (what, m.uid, name,
                                     sorted(f.decode() for f in have),
                                     sorted(f.decode() for f in m.flags)))
            return False
        if rec['size'] != m.size:
            ctx.violate(prop, 'size', 'after %s UID %d of %s has RFC822.SIZE '
                        '%r, appended %d bytes' % (what, m.uid, name,
                                                   rec['size'], m.size))
            return False
        if m.date is not None:
            if parse_date(rec['date']) != parse_date(m.date):
                ctx.violate(prop, 'date', 'after %s UID %d of %s has '
                            'INTERNALDATE %r, given %r'
                            % (what, m.uid, name, rec['date'], m.date))
                return False
    return True


def _fetch_seqs(cmd) -> dict:
    return {r.num: r.data for r in cmd.untagged if r.name == b'FETCH'}


def apply_command(ctx: Ctx, prop: str, model: MailModel, cl, cmd) -> list:
    """Interpret one completed command with the model; returns the mailbox
    names whose contents should now be compared."""
    act = cmd.action
    kind = cmd.kind
    cond = cmd.cond
    what = '%s %s' % (cmd.tag.decode(), kind.upper())
    touched = []

    def bad(clause, detail):
        ctx.violate(prop, clause, '%s: %s' % (what, detail))

    if kind in ('select', 'examine'):
        box = model.box(act['mailbox'])
        if cond == 'OK':
            if box is None:
                bad('select-missing', 'selected a mailbox the model does not '
                    'have: %r' % act['mailbox'])
                return touched
            sel = cl.shadow.selected or {}
            model.select(act['mailbox'], kind == 'examine',
                         sel.get('permflags'))
            if sel.get('exists') != len(box.msgs):
                bad('exists', 'SELECT reported %r EXISTS, model has %d'
                    % (sel.get('exists'), len(box.msgs)))
        else:
            model.deselect()
            if box is not None and cond == 'NO':
                bad('select-refused', 'existing mailbox refused: %r'
                    % (cmd.result,))
        return touched
    if kind == 'close':
        if cond == 'OK':
            if model.selected and not model.readonly:
                touched.append(model.selected)
                model.expunge()
            model.deselect()
        return touched
    if kind == 'append':
        box = model.box(act['mailbox'])
        if box is None:
            if cond == 'OK':
                bad('append-missing', 'APPEND to a missing mailbox answered '
                    'OK')
            return touched
        if cond != 'OK':
            bad('append-refused', 'APPEND to existing mailbox answered %s %r'
                % (cond, cmd.result.text))
            return [box.name]
        code = cmd.result.code
        uids = None
        if code and code[0] == b'APPENDUID':
            uids = code[1][1]
            if len(uids) != len(act['msgs']):
                bad('appenduid', 'APPENDUID lists %d UIDs for %d messages'
                    % (len(uids), len(act['msgs'])))
                uids = None
            elif box.next_uid is not None and (
                    uids[0] < box.next_uid or
                    any(b <= a for a, b in zip(uids, uids[1:]))):
                bad('appenduid', 'APPENDUID %s not above previous UIDs '
                    '(next expected >= %d)' % (uids, box.next_uid))
        model.append(act['mailbox'], act['msgs'], uids)
        return [box.name]
    if model.selected is None:
        return touched
    if kind in ('noop', 'check', 'search'):
        return touched
    pre_view = list(model.view)
    if kind == 'expunge':
        if cond != 'OK':
            if model.readonly:
                return touched
            bad('expunge-refused', 'answered %s' % cond)
            return [model.selected]
        victims = model.expunge(act.get('uid_set'))
        view = list(pre_view)
        removed = []
        for r in cmd.untagged:
            if r.name == b'EXPUNGE' and 1 <= r.num <= len(view):
                removed.append(view.pop(r.num - 1))
        if {id(m) for m in removed} != {id(m) for m in victims}:
            bad('expunge-reported', 'EXPUNGE responses removed UIDs %s, '
                'model expunges %s' % (sorted(m.uid for m in removed),
                                       sorted(m.uid for m in victims)))
        return [model.selected]
    targets = model.addressed(act['set'], bool(act.get('uid')))
    if targets is None:
        return [model.selected]
    seqs = {id(m): i + 1 for i, m in enumerate(pre_view)}
    if kind == 'store':
        if cond != 'OK':
            if targets and not model.readonly and cond == 'NO':
                bad('store-refused', 'answered NO with %d addressed '
                    'messages' % len(targets))
            return [model.selected]
        if model.readonly:
            bad('store-readonly', 'STORE accepted in a read-only selection')
            return [model.selected]
        model.store(targets, act.get('op', ''), act['flags'])
        got = _fetch_seqs(cmd)
        for m in targets:
            data = got.get(seqs[id(m)])
            if data is None or b'FLAGS' not in data:
                if not act.get('silent'):
                    bad('store-unreported', 'no FETCH FLAGS for addressed '
                        'seq %d (UID %s)' % (seqs[id(m)], m.uid))
                    break
                continue
            have = {canon_flag(f) for f in data[b'FLAGS']} - {RECENT}
            if have != set(m.flags):
                bad('store-reported', 'seq %d reported %s, model says %s'
                    % (seqs[id(m)], sorted(f.decode() for f in have),
                       sorted(f.decode() for f in m.flags)))
                break
        return [model.selected]
    if kind in ('copy', 'move'):
        dest = model.box(act['mailbox'])
        if dest is None:
            if cond == 'OK':
                bad('copy-missing', 'destination does not exist but %s '
                    'answered OK' % kind.upper())
            return [model.selected]
        if cond != 'OK':
            if targets and cond == 'NO' and not (kind == 'move'
                                                 and model.readonly):
                bad('copy-refused', 'answered NO with %d addressed messages'
                    % len(targets))
            return [model.selected, dest.name]
        code = cmd.result.code
        if kind == 'move':
            codes = [r.code for r in cmd.untagged if r.kind == 'cond'
                     and r.code and r.code[0] == b'COPYUID']
            code = codes[0] if codes else None
        dst_uids = None
        if code and code[0] == b'COPYUID':
            src, dst = code[1][1], code[1][2]
            if src != [m.uid for m in targets] or len(dst) != len(src):
                bad('copyuid', 'COPYUID %s -> %s but the set addresses UIDs '
                    '%s' % (src, dst, [m.uid for m in targets]))
            else:
                dst_uids = dst
        elif targets:
            bad('copyuid', 'no COPYUID although %d messages were addressed'
                % len(targets))
        model.copy(targets, act['mailbox'], dst_uids)
        if kind == 'move':
            model.remove(targets)
        return [model.selected, dest.name]
    if kind == 'fetch':
        if cond != 'OK':
            if targets and cond == 'NO':
                bad('fetch-refused', 'answered NO with %d addressed messages'
                    % len(targets))
            return [model.selected]
        got = _fetch_seqs(cmd)
        want = {seqs[id(m)] for m in targets}
        if ctx.case.get('duo'):
            # the other writer's flag changes are reported here as well
            got = {k: v for k, v in got.items() if k in want or
                   set(v) - {b'FLAGS', b'UID'}}
        if set(got) != want:
            bad('fetch-addressed', 'FETCH %s returned seqs %s, the set '
                'addresses %s' % (act['set'], sorted(got), sorted(want)))
        for m in targets:
            data = got.get(seqs[id(m)]) or {}
            if b'UID' in data and data[b'UID'] != m.uid:
                bad('fetch-uid', 'seq %d reported UID %d, model says %d'
                    % (seqs[id(m)], data[b'UID'], m.uid))
                break
            if b'RFC822.SIZE' in data and data[b'RFC822.SIZE'] != m.size:
                bad('fetch-size', 'UID %d RFC822.SIZE %d, appended %d'
                    % (m.uid, data[b'RFC822.SIZE'], m.size))
                break
            for key in (b'BODY[]', b'RFC822'):
                if key in data and data[key] is not None:
                    tok = token_of(bytes(data[key]))
                    if tok != m.token:
                        bad('fetch-content', 'UID %d returned the content '
                            'of token %r, model says %r'
                            % (m.uid, tok, m.token))
                        break
        if sets_seen(act['attrs']) and not model.readonly:
            model.store(targets, '+', ['\\Seen'])
        return [model.selected]
    return touched


def interfere(ctx: Ctx, model: MailModel, act: dict, cmd) -> bool:
    """UID STORE by the second writer (its view is current: it sent NOOP
    in the step before and nothing happened in between)."""
    cl = ctx.clients[act['sess']]
    if cmd.result is None or not cmd.ok:
        return True
    box = model.box('INBOX')
    from sim.shadow import parse_seqset
    maxuid = box.msgs[-1].uid if box.msgs else 0
    wanted = parse_seqset(act['set'].encode('latin-1'), maxuid)
    if wanted is None:
        return True
    w = set(wanted)
    targets = [m for m in box.msgs if m.uid in w]
    sel = cl.shadow.selected or {}
    perm = sel.get('permflags')
    saved = model.permflags
    model.permflags = None if perm is None else frozenset(
        canon_flag(f) for f in perm)
    try:
        model.store(targets, act.get('op', ''), act['flags'])
    finally:
        model.permflags = saved
    ctx.stat('interferer_stores')
    return compare_box(ctx, 'C10', model, 'INBOX',
                       '%s UID STORE by the second writer'
                       % cmd.tag.decode())


class C10(Profile):
    id = 'C10'
    BACKENDS = ('dict', 'dict', 'dict', 'maildir')
    level = 'exploration'
    quick_budget_s = 45.0
    thorough_budget_s = 420.0
    batch = 15
    rule = ('one mutating session (so the model is sequential) plus 0-2 '
            'passive sessions that only NOOP - in 35% of the programs the '
            'second session is a second writer that, between the first '
            'one\'s commands and strictly one command at a time, sends NOOP '
            'and then UID STORE (+/-/replace, half of them \\Deleted), so '
            'that the first session acts on messages whose flags changed '
            'behind its back; programs of 5-40 commands over '
            'APPEND (1-3 messages, flags, dates)/STORE(.SILENT)/EXPUNGE/UID '
            'EXPUNGE/COPY/MOVE/FETCH(.PEEK)/CLOSE+reSELECT and UID variants, '
            'sequence sets of every shape (*, n:*, *:n, reversed, out of '
            'range, duplicates), flag sets with system flags, \\Recent and '
            'keywords. After every command the touched mailboxes are dumped '
            'by a probe and compared with the model (UIDs, flags, size, '
            'date) and the command\'s own untagged data with what the model '
            'says it returns. Non-trivial = program with >= 3 commands that '
            'changed the model.')
    assumptions = C01.assumptions + [
        'out-of-range sequence numbers: the model addresses the in-range '
        'part; NO/BAD with no effect is accepted too',
        'APPEND keywords are not generated on the dict backend (it stores '
        'them although PERMANENTFLAGS does not list them; the statement does '
        'not say which is right)']
    components = C01.components

    def gen(self, rng, tier):
        from .common import backends, finish_cfg
        return finish_cfg(gen_model_case(
            rng, tier, backends=backends(self.BACKENDS)), rng)

    def run(self, case, trace=False):
        ctx = Ctx(case, trace=trace)
        try:
            first_uid = 101 if ctx.backend == 'dict' else 1
            model = MailModel(first_uid)
            if ctx.backend == 'maildir':
                model.keyword_boxes = {'INBOX'}
            effective = 0
            for i, step in enumerate(case['steps']):
                cmds = ctx.run_step(step, i)
                ctx.quiesce()       # a stalled lock may outlast the horizon
                for act, cmd in zip(step['actions'], cmds):
                    if cmd is not None and act.get('interferer'):
                        if not interfere(ctx, model, act, cmd):
                            break
                        continue
                    if cmd is None or act.get('sess') != 0:
                        continue
                    cl = ctx.clients[0]
                    if cmd.result is None:
                        if not cl.conn.done:
                            ctx.violate('C10', 'unanswered', '%s got no '
                                        'tagged reply' % cmd.kind)
                        continue
                    if cmd.kind == 'create' and cmd.ok:
                        model.create(act['mailbox'])
                        continue
                    if cmd.kind in ('login', 'logout'):
                        continue
                    touched = apply_command(ctx, 'C10', model, cl, cmd)
                    if touched and cmd.ok:
                        effective += 1
                    for name in dict.fromkeys(touched):
                        if not compare_box(ctx, 'C10', model, name,
                                           '%s %s' % (cmd.tag.decode(),
                                                      cmd.kind.upper())):
                            break
                if any(v['property'] == 'C10' for v in ctx.violations):
                    break
            ctx.finish()
            res = ctx.result()
            res['violations'] = [v for v in res['violations']
                                 if v['property'] == 'C10']
            res['nontrivial'] = effective >= 3
            res['stats']['effective_commands'] = effective
            if trace:
                res['trace'] = ctx.world.trace
            return res
        finally:
            ctx.close()


PROFILE = C10()
