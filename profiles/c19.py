"""C19 - ManageSieve: no script access before login; script store is a map."""

from __future__ import annotations

import itertools
import random

from sim.client import s, b
from sim.driver import Profile
from sim.engine import Violation, innermost_pymap_frame
from sim.sieve import SieveClient, sieve_string
from sim.world import World
from sim.wire import Atom
from .common import USER, USER2

NAMES = ['a', 'b', 'script one', 'x"y', 'back\\slash', 'né', '日本',
         'N' * 70, 'demo', 'A', 'a ', '{3}', '*', 'OK', 'NIL', 'a\tb']
BODIES = [b'', b'keep;', b'require "fileinto";\r\nfileinto "x";\r\n',
          b'\x00\x01\xff binary', b'"quoted"', b'line1\nline2\r\n\r\n',
          b'{5+}', b'x' * 300, b'if true { stop; }', b'\r', b'OK\r\n']
PRE_AUTH = ['noop', 'capability', 'starttls', 'logout', 'unauth', 'havespace',
            'put', 'list', 'setactive', 'get', 'delete', 'rename', 'check',
            'auth_bad']


def enc(cmd: dict) -> bytes:
    k = cmd['kind']
    name = lambda key='name': sieve_string(
        cmd[key].encode('utf-8'), cmd.get('spelling', 'auto'))
    if k == 'noop':
        return b'NOOP\r\n'
    if k == 'capability':
        return b'CAPABILITY\r\n'
    if k == 'starttls':
        return b'STARTTLS\r\n'
    if k == 'logout':
        return b'LOGOUT\r\n'
    if k == 'unauth':
        return b'UNAUTHENTICATE\r\n'
    if k == 'havespace':
        return b'HAVESPACE ' + name() + b' %d\r\n' % cmd.get('size', 10)
    if k == 'put':
        return b'PUTSCRIPT ' + name() + b' ' + sieve_string(
            b(cmd['data']), cmd.get('spelling2', 'literal')) + b'\r\n'
    if k == 'list':
        return b'LISTSCRIPTS\r\n'
    if k == 'setactive':
        return b'SETACTIVE ' + name() + b'\r\n'
    if k == 'get':
        return b'GETSCRIPT ' + name() + b'\r\n'
    if k == 'delete':
        return b'DELETESCRIPT ' + name() + b'\r\n'
    if k == 'rename':
        return b'RENAMESCRIPT ' + name() + b' ' + name('to') + b'\r\n'
    if k == 'check':
        return b'CHECKSCRIPT ' + sieve_string(b(cmd['data'])) + b'\r\n'
    if k == 'auth':
        return SieveClient.plain(cmd['user'], cmd['password'],
                                 cmd.get('authzid', ''))
    if k == 'auth_bad':
        return SieveClient.plain('user', 'wrong')
    if k == 'raw':
        return b(cmd['data'])
    raise ValueError(k)


def default_args(kind: str, rng=None) -> dict:
    pick = (lambda seq: rng.choice(seq)) if rng else (lambda seq: seq[0])
    cmd = {'kind': kind}
    if kind in ('havespace', 'put', 'setactive', 'get', 'delete', 'rename'):
        cmd['name'] = pick(NAMES)
    if kind == 'rename':
        cmd['to'] = pick(NAMES[1:] if not rng else NAMES)
    if kind in ('put', 'check'):
        cmd['data'] = s(pick(BODIES[1:] if not rng else BODIES))
    if kind == 'setactive' and rng and rng.random() < 0.2:
        cmd['name'] = ''
    return cmd


def gen_sieve_case(rng: random.Random, tier: str) -> dict:
    cfg = {'backend': 'dict', 'users': [USER, USER2],
           'demo_data': rng.random() < 0.3, 'tls': False}
    cmds = []
    # pre-auth prefix
    for _ in range(rng.choice([0, 0, 1, 2, 3])):
        cmds.append(dict(default_args(rng.choice(PRE_AUTH), rng), conn=0))
    who = {0: None, 1: None}
    n_conn = rng.choice([1, 1, 2])
    for _ in range(rng.randint(3, 25)):
        conn = rng.randrange(n_conn)
        if who[conn] is None:
            user = rng.choice([USER, USER, USER2])
            cmds.append({'kind': 'auth', 'user': user['name'],
                         'password': user['password'], 'conn': conn})
            who[conn] = user['name']
            continue
        kind = rng.choices(
            ['put', 'get', 'list', 'setactive', 'delete', 'rename',
             'havespace', 'check', 'noop', 'capability', 'unauth', 'verify'],
            [8, 4, 3, 4, 4, 4, 1, 1, 1, 1, 1, 2])[0]
        if kind == 'unauth':
            who[conn] = None
        if kind == 'verify':
            cmds.append({'kind': 'verify', 'conn': conn})
            continue
        cmd = default_args(kind, rng)
        cmd['conn'] = conn
        cmd['spelling'] = rng.choice(['auto', 'quoted', 'literal'])
        cmds.append(cmd)
    cmds.append({'kind': 'verify', 'conn': 0})
    case = {'config': cfg, 'steps': cmds}
    if rng.random() < 0.35:
        # everything the clients send arrives in small pieces
        case['chunk_seed'] = rng.getrandbits(32)
    return case


def pre_auth_case(a: str, b_: str | None) -> dict:
    cfg = {'backend': 'dict', 'users': [USER, USER2], 'demo_data': False,
           'tls': False}
    cmds = [dict(default_args(a), conn=0)]
    if b_ is not None:
        cmds.append(dict(default_args(b_), conn=0))
    cmds.append({'kind': 'verify', 'conn': 1})
    return {'config': cfg, 'steps': cmds}


class SieveModel:

    def __init__(self) -> None:
        self.users: dict[str, dict] = {}

    def user(self, name: str) -> dict:
        return self.users.setdefault(name, {'scripts': {}, 'active': None,
                                            'synced': False})


def run_sieve(case: dict, trace: bool = False) -> dict:
    world = World(case['config'], seed=int(case.get('seed', 0)), trace=trace)
    violations: list = []
    stats = {'commands': 0, 'verifies': 0, 'preauth_refused': 0}
    model = SieveModel()
    conns: dict[int, SieveClient] = {}
    who: dict[int, str | None] = {}

    def violate(clause, detail, **sig):
        sig.setdefault('backend', 'dict')
        violations.append(Violation(property='C19', clause=clause,
                                    detail=detail, sig=sig,
                                    step=stats['commands'], seq=world.seq))

    def get_conn(i: int) -> SieveClient:
        cl = conns.get(i)
        if cl is None or cl.conn.done:
            cl = SieveClient(world, i)
            if case.get('chunk_seed') is not None:
                cl.chunk_rng = random.Random(case['chunk_seed'] + i)
            conns[i] = cl
            who[i] = None
            world.run(0.5, None, [])
            if not cl.responses or not cl.responses[0].ok:
                violate('greeting', 'no capability greeting: %r'
                        % (cl.responses[:1],))
        return cl

    def sync_user(cl: SieveClient, user: str) -> bool:
        """Read the whole store of *user* through LISTSCRIPTS/GETSCRIPT and
        compare with (or initialise) the model."""
        m = model.user(user)
        resp = cl.command(b'LISTSCRIPTS\r\n')
        if resp is None or not resp.ok:
            violate('list', 'LISTSCRIPTS answered %r' % (resp,))
            return False
        names = []
        active = []
        for line in resp.lines:
            if not line or isinstance(line[0], (list, Atom)):
                violate('list', 'bad LISTSCRIPTS line %r' % (line,))
                return False
            nm = bytes(line[0]).decode('utf-8', 'replace')
            names.append(nm)
            if len(line) > 1:
                if len(line) != 2 or not isinstance(line[1], Atom) \
                        or line[1].upper() != b'ACTIVE':
                    violate('list', 'bad LISTSCRIPTS line %r' % (line,))
                    return False
                active.append(nm)
        if not m['synced']:
            m['synced'] = True
            for nm in names:
                r = cl.command(b'GETSCRIPT ' +
                               sieve_string(nm.encode('utf-8')) + b'\r\n')
                if r is None or not r.ok or not r.lines:
                    violate('get', 'listed script %r cannot be fetched: %r'
                            % (nm, r))
                    return False
                m['scripts'][nm] = bytes(r.lines[0][0])
            m['active'] = active[0] if active else None
            if len(active) > 1:
                violate('active', 'several ACTIVE scripts: %r' % active)
                return False
            return True
        stats['verifies'] += 1
        if sorted(names) != sorted(m['scripts']):
            violate('names', 'user %s: LISTSCRIPTS gives %r, model has %r'
                    % (user, sorted(names), sorted(m['scripts'])))
            return False
        want_active = [m['active']] if m['active'] is not None else []
        if active != want_active:
            violate('active', 'user %s: ACTIVE marks %r, model says %r'
                    % (user, active, want_active))
            return False
        for nm, data in m['scripts'].items():
            r = cl.command(b'GETSCRIPT ' + sieve_string(nm.encode('utf-8'))
                           + b'\r\n')
            if r is None or not r.ok or not r.lines:
                violate('get', 'GETSCRIPT %r answered %r' % (nm, r))
                return False
            got = bytes(r.lines[0][0])
            if got != data:
                violate('content', 'user %s script %r holds %r, model says '
                        '%r' % (user, nm, got[:60], data[:60]))
                return False
        return True

    def verify_all() -> None:
        """Fresh connections: every user's store equals the model."""
        for user in case['config']['users']:
            cl = SieveClient(world, 50)
            world.run(0.5, None, [])
            r = cl.command(SieveClient.plain(user['name'], user['password']))
            if r is None or not r.ok:
                violate('auth', 'valid credentials of %s answered %r'
                        % (user['name'], r))
                return
            ok = sync_user(cl, user['name'])
            cl.command(b'LOGOUT\r\n')
            violations.extend(Violation(v, sig={'backend': 'dict'}, step=0,
                                        seq=world.seq)
                              for v in cl.violations)
            if not ok:
                return

    try:
        # learn the initial contents (demo data) before anything happens
        verify_all()
        for cmd in case['steps']:
            if violations:
                break
            kind = cmd['kind']
            if kind == 'verify':
                verify_all()
                continue
            cl = get_conn(cmd.get('conn', 0))
            if violations:
                break
            conn_id = cmd.get('conn', 0)
            user = who.get(conn_id)
            stats['commands'] += 1
            try:
                data = enc(cmd)
            except UnicodeEncodeError:
                continue
            resp = cl.command(data)
            if cl.error is not None:
                break
            if resp is None:
                if not cl.conn.done:
                    violate('unanswered', '%s got no response' % kind)
                break
            m = model.user(user) if user else None
            scripts = m['scripts'] if m else None
            if kind == 'auth':
                if user is not None:
                    # already authenticated: must be refused, nothing changes
                    if resp.ok:
                        violate('gate', 'AUTHENTICATE accepted while '
                                'authenticated as %s' % user)
                elif resp.ok:
                    who[conn_id] = cmd['user']
                    model.user(cmd['user'])
                else:
                    violate('auth', 'valid credentials answered %r' % (resp,))
                continue
            if kind == 'auth_bad':
                if resp.ok:
                    violate('auth', 'wrong password accepted')
                continue
            if kind == 'logout':
                if resp.cond != b'BYE' and not resp.ok:
                    violate('logout', 'LOGOUT answered %r' % (resp,))
                who[conn_id] = None
                continue
            if kind == 'unauth':
                if user is not None and resp.ok:
                    who[conn_id] = None
                continue
            if kind in ('noop', 'capability', 'starttls', 'havespace',
                        'check', 'raw'):
                continue
            # script commands
            if user is None:
                if resp.ok:
                    violate('gate', '%s answered OK before authentication'
                            % kind.upper(), command=kind)
                else:
                    stats['preauth_refused'] += 1
                continue
            name = cmd.get('name')
            if kind == 'put':
                valid = bool(name)
                if valid:
                    if not resp.ok:
                        violate('put', 'PUTSCRIPT %r answered %r'
                                % (name, resp))
                    else:
                        scripts[name] = b(cmd['data'])
                elif resp.ok:
                    violate('put', 'PUTSCRIPT with empty name answered OK')
            elif kind == 'get':
                if name in scripts:
                    if not resp.ok or not resp.lines:
                        violate('get', 'GETSCRIPT %r answered %r'
                                % (name, resp))
                    elif bytes(resp.lines[0][0]) != scripts[name]:
                        violate('content', 'GETSCRIPT %r returned %r, model '
                                'says %r' % (name,
                                             bytes(resp.lines[0][0])[:60],
                                             scripts[name][:60]))
                elif resp.ok:
                    violate('get', 'GETSCRIPT of missing %r answered OK'
                            % name)
            elif kind == 'setactive':
                if name == '':
                    if resp.ok:
                        m['active'] = None
                elif name in scripts:
                    if not resp.ok:
                        violate('setactive', 'SETACTIVE %r answered %r'
                                % (name, resp))
                    else:
                        m['active'] = name
                elif resp.ok:
                    violate('setactive', 'SETACTIVE of missing %r answered '
                            'OK' % name)
            elif kind == 'delete':
                if name not in scripts:
                    if resp.ok:
                        violate('delete', 'DELETESCRIPT of missing %r '
                                'answered OK' % name)
                elif name == m['active']:
                    if resp.ok:
                        violate('delete-active', 'DELETESCRIPT of the active '
                                'script %r answered OK' % name)
                        scripts.pop(name, None)
                        m['active'] = None
                elif not resp.ok:
                    violate('delete', 'DELETESCRIPT %r answered %r'
                            % (name, resp))
                else:
                    del scripts[name]
            elif kind == 'rename':
                to = cmd['to']
                if name not in scripts or to in scripts or not to:
                    if resp.ok and not (name in scripts and to == name):
                        violate('rename', 'RENAMESCRIPT %r -> %r answered OK '
                                '(source exists: %s, target exists: %s)'
                                % (name, to, name in scripts, to in scripts))
                elif not resp.ok:
                    violate('rename', 'RENAMESCRIPT %r -> %r answered %r'
                            % (name, to, resp))
                else:
                    scripts[to] = scripts.pop(name)
                    if m['active'] == name:
                        m['active'] = to
            elif kind == 'list':
                if not resp.ok:
                    violate('list', 'LISTSCRIPTS answered %r' % (resp,))
        if not violations:
            verify_all()
        for cl in conns.values():
            violations.extend(Violation(v, sig={'backend': 'dict'}, step=0,
                                        seq=world.seq)
                              for v in cl.violations)
            task = cl.conn.task
            if task.done() and not task.cancelled() and task.exception():
                exc = task.exception()
                violate('serverbug', '%s: %s' % (type(exc).__name__, exc),
                        exception=type(exc).__name__,
                        site=innermost_pymap_frame(exc))
        for info in world.server_errors:
            if 'exception' in info:
                violate('server-error', 'ManageSieve answered "Server error" '
                        'after %s at %s' % (info['exception'], info['site']),
                        exception=info['exception'], site=info['site'])
                break
        res = {'violations': violations, 'digest': world.digest(),
               'stats': stats, 'probes': dict(world.probes),
               'fired': dict(world.fired), 'moves': world.moves,
               'sim_seconds': world.clock.now,
               'nontrivial': stats['commands'] >= 2}
        if trace:
            res['trace'] = world.trace
        return res
    finally:
        world.close()


class C19(Profile):
    id = 'C19'
    level = 'exploration'
    quick_budget_s = 30.0
    thorough_budget_s = 300.0
    batch = 30
    rule = ('ManageSieveServer over simulated streams, two users, dict '
            'backend FilterSet. Exhaustive part: every program of 1 or 2 of '
            'the 14 commands before authentication, followed by a check '
            'through fresh authenticated connections that both users\' '
            'stores are untouched. Random part: 3-25 commands on 1-2 '
            'connections (PUT/GET/LIST/SETACTIVE/DELETE/RENAME/HAVESPACE/'
            'CHECK/UNAUTHENTICATE, re-authentication as either user) with '
            'script names from 16 shapes (UTF-8, quotes, backslash, 70 '
            'bytes, empty, reserved words) and 11 body shapes, quoted or '
            '{n+} spelling; dictionary model per user; full verification '
            '(LISTSCRIPTS + GETSCRIPT of every name for both users) at '
            'random points and at the end. Non-trivial = >= 2 commands.')
    assumptions = ['single command in flight per connection; the map '
                   'semantics are sequential',
                   'responses are parsed by a strict RFC 5804 response '
                   'parser (sim/sieve.py)']
    components = {'real': ['pymap.sieve.manage', 'pymap.backend.dict.filter',
                           'pymap.backend.dict (Login)', 'pysasl'],
                  'stub': ['TCP streams (SimConn)', 'TLS (start_tls is a '
                           'no-op)', 'maildir/redis filter sets are not run']}

    def enumerate(self, tier):
        for a in PRE_AUTH:
            yield pre_auth_case(a, None)
        for a, b_ in itertools.product(PRE_AUTH, PRE_AUTH):
            yield pre_auth_case(a, b_)

    def gen(self, rng, tier):
        return gen_sieve_case(rng, tier)

    def run(self, case, trace=False):
        return run_sieve(case, trace)


PROFILE = C19()
