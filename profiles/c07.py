"""C07 - every response is well-formed IMAP (strict independent parser)."""

from __future__ import annotations

import random

from sim.client import s
from sim.driver import Profile
from sim.engine import Ctx
from .c01 import C01, gen_concurrent_case, run_concurrent
from .c06 import gen_input_case, run_inputs, hostile_message
from .c10 import gen_model_case
from .common import USER

TRICKY = ['"', '\\', '\r', '\n', '\x00', '\xe9', '&', '%', '*', '(', ')',
          '{5}', ' ', '\t', ']', '[', '~', '\x7f', '\x01', '{', '}', '\r\n',
          '/', '//', '.', 'é', '日本', ' ', '+', '-', ',', 'NIL', '""']


def tricky_text(rng: random.Random, lo: int = 1, hi: int = 12) -> str:
    """A short string over plain letters and tricky characters (may contain
    non-latin-1 characters: callers decide how to carry them)."""
    out = []
    for _ in range(rng.randint(lo, hi)):
        if rng.random() < 0.45:
            out.append(rng.choice(TRICKY))
        else:
            out.append(rng.choice('abcXYZ019'))
    text = ''.join(out)
    r = rng.random()
    if r < 0.1:
        text = (text * 20)[:rng.choice([62, 63, 64, 65, 66])]
    elif r < 0.15:
        text = (text * 200)[:rng.choice([300, 1000, 5000])]
    return text


def header_value(rng: random.Random) -> bytes:
    v = tricky_text(rng, 1, 20)
    r = rng.random()
    if r < 0.2:
        return v.encode('utf-8', 'replace')
    if r < 0.3:
        return b'=?utf-8?B?4pyT?= ' + v.encode('latin-1', 'replace')
    return v.encode('latin-1', 'replace')


def echo_message(rng: random.Random) -> bytes:
    hv = lambda: header_value(rng).replace(b'\n', b' ')
    kind = rng.randrange(8)
    if kind == 0:
        return hostile_message(rng)
    hdrs = [b'From: "' + hv() + b'" <' + hv() + b'@' + hv() + b'>',
            b'To: ' + hv() + b' <a@b>, "' + hv() + b'" <c@d>',
            b'Cc: group: ' + hv() + b' <x@y>;',
            b'Subject: ' + hv(),
            b'Message-ID: <' + hv() + b'>',
            b'In-Reply-To: ' + hv(),
            b'Date: ' + rng.choice([b'Mon, 15 Jan 2024 12:00:00 +0000', hv()]),
            b'Sender: ' + hv(), b'Reply-To: ' + hv(), b'Bcc: ' + hv()]
    rng.shuffle(hdrs)
    hdrs = hdrs[:rng.randint(2, len(hdrs))]
    pv = lambda: hv().replace(b'"', b"'").replace(b'\r', b' ')
    if kind in (1, 2):
        hdrs.append(b'Content-Type: text/plain; charset="' + pv() +
                    b'"; name="' + pv() + b'"')
        hdrs.append(b'Content-Disposition: attachment; filename="' + pv() +
                    b'"')
        hdrs.append(b'Content-ID: <' + pv() + b'>')
        hdrs.append(b'Content-Description: ' + hv())
        hdrs.append(b'Content-Language: ' + pv())
        hdrs.append(b'Content-Location: ' + pv())
        hdrs.append(b'Content-MD5: ' + pv())
        body = hv() + b'\r\n'
    elif kind in (3, 4, 5):
        depth = rng.choice([1, 1, 2, 3, 30] if rng.random() < 0.95 else
                           [99, 101, 140, 400])
        nparts = rng.choice([0, 1, 2, 3])
        hdrs.append(b'Content-Type: multipart/' + rng.choice(
            [b'mixed', b'alternative', pv()]) + b'; boundary="b0"; x="' +
            pv() + b'"')
        body = b''
        for d in range(depth):
            b = b'b%d' % d
            for p in range(nparts):
                body += b'--' + b + b'\r\nContent-Type: ' + rng.choice(
                    [b'text/plain', b'text/html; charset=' + pv(),
                     b'application/octet-stream; name="' + pv() + b'"',
                     b'message/rfc822', b'image/' + pv()]) + b'\r\n' + \
                    rng.choice([b'', b'Content-Transfer-Encoding: base64\r\n',
                                b'Content-Disposition: inline; x="' + pv() +
                                b'"\r\n']) + b'\r\n' + \
                    rng.choice([b'part\r\n', b'Subject: inner ' + hv() +
                                b'\r\n\r\ninner\r\n', b''])
            if d + 1 < depth:
                body += b'--' + b + b'\r\nContent-Type: multipart/mixed; ' \
                    b'boundary="b%d"\r\n\r\n' % (d + 1)
        for d in range(depth - 1, -1, -1):
            if rng.random() < 0.85:
                body += b'--b%d--\r\n' % d
    elif kind == 6:
        hdrs.append(b'Content-Type: message/rfc822')
        body = echo_message(rng) if rng.random() < 0.7 else hv()
        if rng.random() < 0.12:
            # a long chain of messages inside messages: every use of the
            # structure recurses once per level
            for _ in range(rng.choice([60, 99, 100, 101, 102, 150, 300,
                                       450, 1200])):
                body = b'Content-Type: message/rfc822\r\n\r\n' + body
    else:
        body = hv()
    return b'\r\n'.join(hdrs) + b'\r\n\r\n' + body


APPEND_DATES = ['15-Jan-2024 10:00:00 +0000', ' 1-Jan-2024 00:00:00 -0800',
                '01-Jan-2020 00:00:00 +000030', '01-Jan-2020 00:00:00 +00:30',
                '01-Jan-2020 00:00:00 Z', '01-Jan-2020 00:00:00 +0530',
                '01-Jan-2020 00:00:00 -000030.5', '1-Jan-2020 00:00:00 +0000',
                '01-jan-2020 00:00:00 +0000', '31-Dec-9999 23:59:59 -1200',
                '01-Jan-0001 00:00:00 +1400', '01-Jan-2020 00:00:00 +2359',
                '01-Jan-2020 00:00:00 -0000', '01-Jan-2020 00:00:00 UTC',
                '01-Jan-2020 0:0:0 +0000', '01-Jan-20 00:00:00 +0000']


ECHO_FETCH = ['ENVELOPE', 'BODYSTRUCTURE', 'BODY', 'FULL', 'ALL',
              'BODY.PEEK[HEADER]', 'BODY.PEEK[HEADER.FIELDS (SUBJECT FROM)]',
              'BODY.PEEK[1.MIME]', 'BODY.PEEK[]', 'RFC822.HEADER', 'FLAGS',
              '(UID ENVELOPE BODYSTRUCTURE)', 'BODY.PEEK[1]',
              'BODY.PEEK[2.HEADER]', 'BINARY.PEEK[1]', 'BODY.PEEK[TEXT]<0.5>',
              'EMAILID', 'THREADID', 'INTERNALDATE']


_ATOM_SAFE = set('abcdefghijklmnopqrstuvwxyzABCDEFGHIJKLMNOPQRSTUVWXYZ'
                 '0123456789-_.$#!+:;=?@^`|~&<>,/\'')


def header_fields_attr(rng: random.Random) -> tuple[str, list[str]]:
    """A BODY.PEEK[HEADER.FIELDS[.NOT] (...)] item whose field names are
    client-chosen strings spelled as atom, quoted string or literal+; the
    server echoes the names in the FETCH response."""
    names = []
    parts = []
    for _ in range(rng.randint(1, 4)):
        r = rng.random()
        if r < 0.3:
            name = rng.choice(['Subject', 'from', 'X-Token', 'DATE', 'to'])
        else:
            name = ''.join(c for c in tricky_text(rng, 1, 6)
                           if ord(c) < 256 and c != '\x00')[:40] or 'x'
        names.append(name)
        safe = all(c in _ATOM_SAFE for c in name)
        if safe and rng.random() < 0.5:
            parts.append(name)
        elif '\r' not in name and '\n' not in name and rng.random() < 0.6:
            parts.append('"' + name.replace('\\', '\\\\')
                         .replace('"', '\\"') + '"')
        else:
            parts.append('{%d+}\r\n%s' % (len(name), name))
    prefix = rng.choice(['', '', '1.', '2.1.'])
    attr = 'BODY.PEEK[%sHEADER.FIELDS%s (%s)]' % (
        prefix, rng.choice(['', '.NOT']), ' '.join(parts))
    if rng.random() < 0.2:
        attr += '<0.%d>' % rng.randint(1, 50)
    return attr, names


def name_action(rng, kind, name: str, **extra) -> dict:
    act = dict(extra, kind=kind, sess=0)
    try:
        name.encode('latin-1')
        latin = True
    except UnicodeEncodeError:
        latin = False
    if latin and rng.random() < 0.5:
        act['mailbox_raw'] = name         # raw bytes as the client typed
    else:
        act['mailbox'] = name             # proper modified UTF-7
    act['spelling'] = rng.choice(['auto', 'quoted', 'litplus', 'lit'])
    return act


def gen_echo_case(rng: random.Random, tier: str, backends=('dict',)) -> dict:
    cfg = {'backend': rng.choice(backends), 'users': [USER], 'buggify': [],
           'bad_command_limit': 0}
    steps = [{'actions': [{'sess': 0, 'kind': 'connect'}]},
             {'actions': [{'sess': 0, 'kind': 'login', 'user': 'user',
                           'password': 'pass'}]}]
    names = []
    for _ in range(rng.randint(1, 5)):
        name = tricky_text(rng, 1, 10)
        if rng.random() < 0.3 and names:
            name = rng.choice(names) + '/' + name
        names.append(name)
        steps.append({'actions': [name_action(rng, 'create', name)]})
        if rng.random() < 0.4:
            steps.append({'actions': [name_action(rng, 'subscribe', name)]})
    steps.append({'actions': [{'sess': 0, 'kind': 'list', 'ref': '',
                               'pattern': '*'}]})
    steps.append({'actions': [{'sess': 0, 'kind': 'lsub', 'ref': '',
                               'pattern': '*'}]})
    for name in names:
        if rng.random() < 0.5:
            steps.append({'actions': [name_action(rng, 'status', name)]})
        if rng.random() < 0.3:
            act = name_action(rng, 'list', name)
            act['ref_raw'] = ''
            act['pattern_raw'] = s(rng.choice([b'%', b'*', b'"%"']))
            act.pop('mailbox', None)
            act.pop('mailbox_raw', None)
            steps.append({'actions': [{'sess': 0, 'kind': 'list', 'ref': '',
                                       'pattern': name[:3] + '*'
                                       if all(ord(c) < 256 for c in name)
                                       else '*'}]})
    target = rng.choice(['INBOX'] + names)
    msgs = [{'data': s(echo_message(rng)),
             'flags': rng.choice([None, ['\\Seen'], ['$kw', 'a]b'],
                                  ['\\Answered', 'x' * 70]])}
            for _ in range(rng.randint(1, 3))]
    if rng.random() < 0.4:
        # date-time spellings, several of them outside the grammar but
        # inside what strptime takes: whatever is stored comes back in
        # INTERNALDATE
        rng.choice(msgs)['date'] = rng.choice(APPEND_DATES)
    steps.append({'actions': [name_action(rng, 'append', target, msgs=msgs,
                                          literal='litplus')]})
    steps.append({'actions': [name_action(rng, 'select', target)]})
    for attrs in rng.sample(ECHO_FETCH, rng.randint(4, 10)):
        steps.append({'actions': [{'sess': 0, 'kind': 'fetch',
                                   'uid': rng.random() < 0.3, 'set': '1:*',
                                   'attrs': attrs}]})
    for _ in range(rng.choice([0, 1, 1, 2, 3])):
        attr, hdr_names = header_fields_attr(rng)
        steps.append({'actions': [{'sess': 0, 'kind': 'fetch',
                                   'uid': rng.random() < 0.3, 'set': '1:*',
                                   'attrs': attr, 'hdr_names': hdr_names}]})
    steps.append({'actions': [{'sess': 0, 'kind': 'search',
                               'keys': rng.choice(['ALL', 'SUBJECT a',
                                                   'FROM x', 'TEXT b'])}]})
    steps.append({'actions': [{'sess': 0, 'kind': 'id',
                               'params': [[tricky_text(rng)[:20]
                                           .encode('ascii', 'replace')
                                           .decode(), 'v']]}]})
    steps.append({'actions': [{'sess': 0, 'kind': 'store', 'set': '1:*',
                               'op': '+', 'flags': ['kw1', '\\Flagged']}]})
    if names and rng.random() < 0.5:
        steps.append({'actions': [name_action(
            rng, 'rename', rng.choice(names), to=tricky_text(rng, 1, 6))]})
        steps.append({'actions': [{'sess': 0, 'kind': 'list', 'ref': '',
                                   'pattern': '*'}]})
    for name in names:
        if rng.random() < 0.3:
            steps.append({'actions': [name_action(rng, 'delete', name)]})
    steps.append({'actions': [{'sess': 0, 'kind': 'logout'}]})
    for st in steps:
        st.setdefault('sched_seed', None)
        for act in st['actions']:
            if rng.random() < 0.2:
                act['chunk_seed'] = rng.getrandbits(32)
    return {'config': cfg, 'steps': steps, 'family': 'echo'}


def check_header_echo(ctx: Ctx, act: dict, cmd, index: int) -> None:
    """The header list the server echoes in the item name denotes the field
    names the client asked for (compared decoded, case-insensitively)."""
    from sim.wire import WireError, section_header_names
    want = sorted({n.encode('latin-1').upper() for n in act['hdr_names']})
    for r in cmd.untagged:
        if r.name != b'FETCH':
            continue
        for key in r.data:
            if not isinstance(key, bytes) or \
                    b'HEADER.FIELDS' not in key.upper():
                continue
            try:
                got = section_header_names(key)
            except WireError as exc:
                got = ['<%s>' % exc]
            if got is None:
                continue
            if sorted({bytes(g).upper() for g in got}) != want:
                ctx.violate('C07', 'echo.header-list', 'step %d FETCH %s: '
                            'asked for header fields %r, the response item '
                            'name %r denotes %r' % (index, act['attrs'][:80],
                                                    want, key[:120], got),
                            sig={'what': 'header-list'})
                return


def run_echo(case: dict, trace: bool = False) -> dict:
    ctx = Ctx(case, trace=trace)
    try:
        n = 0
        for i, step in enumerate(case['steps']):
            cmds = ctx.run_step(step, i)
            n += 1
            cl = ctx.clients.get(0)
            act = step['actions'][0]
            if act.get('hdr_names') is not None and cmds and \
                    cmds[0] is not None and cmds[0].ok:
                check_header_echo(ctx, act, cmds[0], i)
            if cl is not None:
                cl.pending.clear()
                if cl.conn.done or cl.stream.error is not None:
                    break
        ctx.finish()
        res = ctx.result()
        res['nontrivial'] = n >= 5
        if trace:
            res['trace'] = ctx.world.trace
        return res
    finally:
        ctx.close()


class C07(Profile):
    id = 'C07'
    level = 'exploration'
    quick_budget_s = 45.0
    thorough_budget_s = 420.0
    batch = 20
    rule = ('four case families, every byte written to every client parsed '
            'by the strict response parser (sim/wire.py): (echo, 50%) one '
            'session creates/subscribes/renames mailboxes with hostile names '
            '(quotes, backslashes, bare CR/LF via literals, NUL, 8-bit, '
            'non-ASCII, 62-66 and 5000 character values), appends messages '
            'with hostile headers, MIME parameters and nesting shapes and '
            'makes the server echo them through LIST/LSUB/STATUS/FETCH '
            'ENVELOPE/BODYSTRUCTURE/BODY/.../SEARCH/STORE/ID, and fetches '
            'BODY[HEADER.FIELDS (...)] with hostile field names spelled as '
            'atom/quoted/literal+, whose echo must denote the same names; '
            '(inputs, 20%) '
            'the C06 line and stored-message generator; (concurrent, 15%) '
            'the C01 multi-session generator; (model, 15%) the C10 program '
            'generator. Non-trivial = at least 5 steps executed.')
    assumptions = C01.assumptions + [
        'the parser is the RFC 3501 response grammar with the advertised '
        'extensions: complete CRLF-terminated lines, literal counts, '
        'seven-bit quoted-string content, balanced lists, non-empty '
        'resp-text, response argument shapes (ENVELOPE, BODYSTRUCTURE with '
        'its extension data, LIST, STATUS, response codes, msg-att item '
        'names); its own bound is 120 body levels / 260 list levels']
    components = C01.components

    def gen(self, rng, tier):
        from .common import backends, finish_cfg
        bk = backends(('dict', 'dict', 'dict', 'maildir'))
        r = rng.random()
        if r < 0.5:
            return finish_cfg(gen_echo_case(rng, tier, backends=bk), rng)
        if r < 0.7:
            case = gen_input_case(rng, tier, backends=bk)
            case.setdefault('family', 'inputs')
        elif r < 0.85:
            case = gen_concurrent_case(rng, tier, backends=bk)
            case['family'] = 'concurrent'
        else:
            case = gen_model_case(rng, tier, backends=bk)
            case['family'] = 'model'
        return finish_cfg(case, rng)

    def run(self, case, trace=False):
        fam = case.get('family', 'echo')
        if fam in ('inputs', 'sieve'):
            res = run_inputs(case, trace, keep_all=True)
        elif fam in ('concurrent', 'model'):
            res = run_concurrent(case, 'C07', trace)
        else:
            res = run_echo(case, trace)
        res['violations'] = [v for v in res['violations']
                             if v['property'] == 'C07']
        for v in res['violations']:
            v['sig'].setdefault('clause_detail', v['detail'].split(' got ')[0]
                                .split(':')[0][:60])
        return res


PROFILE = C07()
