"""C16 - IDLE delivers every change without further stimulus."""

from __future__ import annotations

import random

from sim.driver import Profile
from sim.shadow import canon_flag
from .c01 import C01, run_concurrent
from .common import (USER, Tokens, append_action, flag_list, maybe_seed,
                     pick_buggify, seq_set, setup_steps, uid_set)
from sim.engine import make_message

RECENT = b'\\Recent'


def writer_action(rng, sess, tokens, hi, maxn):
    kind = rng.choices(['append', 'store', 'expunge', 'move', 'copy',
                        'uidexpunge'], [4, 5, 3, 1, 1, 1])[0]
    uid = rng.random() < 0.5
    the_set = uid_set(rng, 101, hi) if uid else seq_set(rng, maxn)
    if kind == 'append':
        return append_action(rng, tokens, sess, 'INBOX')
    if kind == 'store':
        return {'sess': sess, 'kind': 'store', 'uid': uid, 'set': the_set,
                'op': rng.choice(['+', '+', '-', '']),
                'flags': flag_list(rng) or ['\\Deleted'],
                'silent': rng.random() < 0.3}
    if kind == 'expunge':
        return {'sess': sess, 'kind': 'expunge'}
    if kind == 'uidexpunge':
        return {'sess': sess, 'kind': 'expunge',
                'uid_set': uid_set(rng, 101, hi)}
    return {'sess': sess, 'kind': kind, 'uid': uid, 'set': the_set,
            'mailbox': 'INBOX' if rng.random() < 0.5 else 'Other'}


def gen_idle_case(rng: random.Random, tier: str, backends=('dict',)) -> dict:
    n_idle = rng.choice([1, 1, 2])
    n_wr = rng.choice([1, 1, 2])
    n = n_idle + n_wr
    idlers = list(range(n_idle))
    writers = list(range(n_idle, n))
    tokens = Tokens()
    n_init = rng.randint(0, 6)
    initial = []
    if n_init:
        msgs = []
        for _ in range(n_init):
            tok = tokens.take()
            m = {'data': make_message(tok), 'token': tok}
            if rng.random() < 0.5:
                m['flags'] = flag_list(rng, allow_recent=False)
            msgs.append(m)
        initial.append({'sess': writers[0], 'kind': 'append',
                        'mailbox': 'INBOX', 'msgs': msgs,
                        'literal': 'litplus'})
    cfg = {'backend': rng.choice(backends), 'users': [USER],
           'buggify': pick_buggify(rng),
           'buggify_p': rng.choice([0.1, 0.3, 0.6])}
    steps = setup_steps(n, initial=initial)
    hi = 100 + n_init + 1
    maxn = max(1, n_init)
    for _ in range(rng.randint(1, 3)):
        steps.append({'actions': [{'sess': i, 'kind': 'noop'}
                                  for i in idlers], 'sched_seed': None})
        steps.append({'actions': [{'sess': i, 'kind': 'idle'}
                                  for i in idlers], 'sched_seed': None,
                      'idle_begin': True})
        for _ in range(rng.randint(1, 4)):
            acts = []
            for w in rng.sample(writers, rng.randint(1, len(writers))):
                act = writer_action(rng, w, tokens, hi, maxn)
                if act['kind'] == 'append':
                    hi += len(act['msgs'])
                    maxn += len(act['msgs'])
                elif act['kind'] in ('copy', 'move') \
                        and act['mailbox'] == 'INBOX':
                    hi += 2
                acts.append(act)
            faults = []
            for i in idlers:
                if rng.random() < 0.5:
                    faults.append({'kind': 'hold', 'sess': i,
                                   'at': rng.randint(0, 12), 'auto': True})
            steps.append({'actions': acts, 'faults': faults,
                          'sched_seed': maybe_seed(rng, 0.15)})
        mode = rng.choice(['quiet', 'quiet', 'race', 'stalled'])
        ends = []
        for i in idlers:
            if rng.random() < 0.8 or mode != 'quiet':
                ends.append({'sess': i, 'kind': 'done'})
            else:
                ends.append({'sess': i, 'kind': 'done',
                             'line': rng.choice(['DONE X', 'NOOP', 'done ',
                                                 '', 'a1 DONE'])})
        if mode == 'quiet':
            steps.append({'actions': [{'sess': i, 'kind': 'unhold'}
                                      for i in idlers], 'sched_seed': None,
                          'horizon': 3.0, 'idle_check': True})
            steps.append({'actions': ends, 'sched_seed': None,
                          'idle_end': True})
            continue

        def burst():
            nonlocal hi, maxn
            acts = []
            for w in rng.sample(writers, rng.randint(1, len(writers))):
                act = writer_action(rng, w, tokens, hi, maxn)
                if act['kind'] == 'append':
                    hi += len(act['msgs'])
                    maxn += len(act['msgs'])
                elif act['kind'] in ('copy', 'move') \
                        and act['mailbox'] == 'INBOX':
                    hi += 2
                acts.append(act)
            return acts
        if mode == 'race':
            # DONE and another session's change arrive together: the change
            # landed during IDLE and must not be lost with it
            steps.append({'actions': [{'sess': i, 'kind': 'unhold'}
                                      for i in idlers], 'sched_seed': None})
            acts = burst() + ends
            rng.shuffle(acts)
            steps.append({'actions': acts, 'sched_seed': rng.getrandbits(32),
                          'idle_end': True})
        else:
            # the idler stops reading while a notification is being written,
            # sends DONE into the stall and only then reads again
            steps.append({'actions': [{'sess': i, 'kind': 'unhold'}
                                      for i in idlers], 'sched_seed': None})
            steps.append({'actions': burst(), 'faults': [
                {'kind': 'hold', 'sess': i, 'at': rng.randint(0, 6),
                 'auto': False} for i in idlers],
                'sched_seed': maybe_seed(rng, 0.3)})
            if rng.random() < 0.5:
                steps.append({'actions': burst(),
                              'sched_seed': maybe_seed(rng, 0.3)})
            steps.append({'actions': ends, 'sched_seed': None})
            steps.append({'actions': [{'sess': i, 'kind': 'unhold'}
                                      for i in idlers], 'sched_seed': None,
                          'horizon': 3.0, 'idle_end': True, 'ends': ends})
        # afterwards a NOOP must bring every former idler up to date
        steps.append({'actions': [{'sess': i, 'kind': 'noop'}
                                  for i in idlers], 'sched_seed': None,
                      'converge': True})
    return {'config': cfg, 'steps': steps, 'idlers': idlers}


def check_idlers(ctx, step) -> None:
    """After the burst and 3 virtual seconds with no stimulus: each idler's
    view equals the mailbox."""
    views = {}
    for sid in ctx.case.get('idlers', ()):
        cl = ctx.clients.get(sid)
        if cl is None or cl.conn.done or not cl.idling or cl.conn.held:
            continue
        if cl.shadow.selected is None:
            continue
        views[sid] = [(sl.uid, sl.flags) for sl in cl.shadow.slots]
    if not views:
        return
    dump = ctx.probe('INBOX')
    if dump is None:
        return
    actual = dump['order']
    for sid, view in views.items():
        ctx.stat('idle_views_compared')
        uids = [u for u, _ in view]
        if None in uids:
            if len(uids) != len(actual):
                ctx.violate('C16', 'count', 'idling session %d believes %d '
                            'messages, mailbox has %d'
                            % (sid, len(uids), len(actual)), session=sid)
            continue
        mine, aset = set(uids), set(actual)
        if mine - aset:
            ctx.violate('C16', 'expunge-not-pushed', 'idling session %d was '
                        'not told that UIDs %s are gone (mailbox: %s)'
                        % (sid, sorted(mine - aset), actual), session=sid)
            continue
        if aset - mine:
            ctx.violate('C16', 'new-not-pushed', 'idling session %d was not '
                        'told about new UIDs %s' % (sid, sorted(aset - mine)),
                        session=sid)
            continue
        for uid, flags in view:
            if flags is None:
                continue
            want = {canon_flag(f) for f in dump['msgs'][uid]['flags']}
            want.discard(RECENT)
            have = set(flags)
            have.discard(RECENT)
            if want != have:
                ctx.violate('C16', 'flags-not-pushed', 'idling session %d '
                            'believes UID %d has %s, mailbox has %s' % (
                                sid, uid, sorted(f.decode() for f in have),
                                sorted(f.decode() for f in want)),
                            session=sid)
                break


def check_idle_end(ctx, step, cmds) -> None:
    for act in step.get('ends') or step['actions']:
        if act['kind'] != 'done':
            continue
        cl = ctx.clients.get(act['sess'])
        if cl is None or cl.conn.done:
            continue
        idle_cmds = [c for c in cl.history if c.kind == 'idle']
        if not idle_cmds:
            continue
        cmd = idle_cmds[-1]
        if not cmd.done_sent or not cmd.idling:
            continue
        line = act.get('line', 'DONE')
        ctx.stat('idle_ends')
        if cmd.result is None:
            ctx.violate('C16', 'done-unanswered', 'no tagged reply after %r '
                        'ended IDLE' % line, session=act['sess'])
        elif line == 'DONE' and cmd.cond != 'OK':
            ctx.violate('C16', 'done-not-ok', 'DONE answered %s'
                        % cmd.cond, session=act['sess'])
        elif line != 'DONE' and cmd.cond != 'BAD' \
                and line.strip().upper() != 'DONE':
            ctx.violate('C16', 'garbage-not-bad', '%r instead of DONE '
                        'answered %s' % (line, cmd.cond),
                        session=act['sess'])


class C16(Profile):
    id = 'C16'
    BACKENDS = ('dict', 'dict', 'dict', 'maildir')
    level = 'exploration'
    quick_budget_s = 40.0
    thorough_budget_s = 420.0
    batch = 25
    rule = ('1-2 idling sessions (synchronised by NOOP, then IDLE) and 1-2 '
            'writers issuing bursts of 1-4 steps of APPEND/STORE/EXPUNGE/'
            'COPY/MOVE; the idler\'s drain() is held for a scheduler-chosen '
            'span that overlaps later changes; then 3 virtual seconds with '
            'no input at all, after which each idler\'s shadow view must '
            'equal a probe dump; then DONE (or a garbage line) must yield OK '
            '(BAD). A quarter of the idle rounds instead send DONE together '
            'with another session\'s change (seeded arrival order), another '
            'quarter send DONE while the idler has stopped reading in the '
            'middle of a notification and resume reading afterwards: DONE '
            'must still be answered and a following NOOP must bring the '
            'session\'s view to the mailbox\'s contents (no change that '
            'landed during IDLE is lost). '
            'Non-trivial = writers acted while a session idled.')
    assumptions = C01.assumptions + [
        'liveness bound: 3 virtual seconds after the last change with no '
        'stimulus (dict has no timer on this path; maildir polls at 1 s)']
    components = C01.components

    def gen(self, rng, tier):
        from .common import backends, finish_cfg
        return finish_cfg(gen_idle_case(
            rng, tier, backends=backends(self.BACKENDS)), rng)

    def run(self, case, trace=False):
        def after(ctx, i, step, cmds):
            if step.get('idle_check'):
                check_idlers(ctx, step)
            if step.get('idle_end'):
                check_idle_end(ctx, step, cmds)
            if step.get('converge'):
                from .c02 import compare_views
                compare_views(ctx, 'C16', issued=cmds)
        res = run_concurrent(case, 'C16', trace, after_step=after,
                             keep=lambda v: v['property'] == 'C01'
                             and v.get('during_idle'))
        for v in res['violations']:
            if v['property'] == 'C01':
                v['property'] = 'C16'
                v['clause'] = 'numbering.' + v['clause']
        return res


PROFILE = C16()
