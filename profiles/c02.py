"""C02 - cross-session convergence: no lost, phantom or stuck updates."""

from __future__ import annotations

from sim.driver import Profile
from sim.shadow import canon_flag
from .c01 import C01, gen_concurrent_case, run_concurrent

RECENT = b'\\Recent'


def add_quiescent_points(case: dict, rng, every=(3, 7)) -> dict:
    """Insert [release holds / end idles] + [NOOP or CHECK everywhere] steps,
    the second one marked 'quiesce' for the oracle."""
    n = sum(1 for a in case['steps'][0]['actions'] if a['kind'] == 'connect')
    out = []
    k = rng.randint(*every)
    body_start = None
    for i, st in enumerate(case['steps']):
        if any(a['kind'] in ('select', 'examine') for a in st['actions']):
            body_start = i
    count = 0
    for i, st in enumerate(case['steps']):
        out.append(st)
        if body_start is None or i <= body_start:
            continue
        count += 1
        if count % k == 0 or i == len(case['steps']) - 1:
            out.append({'actions': [{'sess': s, 'kind': 'unhold'}
                                    for s in range(n)] +
                        [{'sess': s, 'kind': 'done'} for s in range(n)],
                        'sched_seed': None})
            out.append({'actions': [
                {'sess': s, 'kind': rng.choice(['noop', 'noop', 'check'])}
                for s in range(n)], 'sched_seed': None, 'quiesce': True})
    case['steps'] = out
    return case


def compare_views(ctx, prop: str, mailbox: str = 'INBOX',
                  issued=None) -> None:
    """*issued*: the commands of the quiescent step itself; only a session
    whose NOOP/CHECK is one of them is compared (an older NOOP says nothing
    about changes made after it)."""
    issued = {id(c) for c in issued or () if c is not None}
    dump = ctx.probe(mailbox)
    if dump is None:
        return
    actual = dump['order']
    aset = set(actual)
    for sid, cl in sorted(ctx.clients.items()):
        sh = cl.shadow
        if sh.selected is None or sh.selected.get('mailbox') != mailbox:
            continue
        if cl.conn.done or cl.pending or cl.conn.held:
            continue
        last = cl.history[-1] if cl.history else None
        if last is None or last.kind not in ('noop', 'check') or not last.ok:
            continue
        if id(last) not in issued:
            continue
        ctx.stat('views_compared')
        uids = sh.uids()
        if any(u is None for u in uids):
            if len(uids) != len(actual):
                ctx.violate(prop, 'count', 'session %d believes %d messages, '
                            'mailbox has %d' % (sid, len(uids), len(actual)),
                            session=sid)
            continue
        mine = set(uids)
        phantom = sorted(mine - aset)
        missing = sorted(aset - mine)
        if phantom:
            ctx.violate(prop, 'phantom', 'session %d still lists UIDs %s that '
                        'no longer exist (mailbox: %s)'
                        % (sid, phantom, actual), session=sid)
            continue
        if missing:
            ctx.violate(prop, 'missing', 'session %d was never told about '
                        'UIDs %s (mailbox: %s, view: %s)'
                        % (sid, missing, actual, uids), session=sid)
            continue
        for sl in sh.slots:
            if sl.flags is None:
                continue
            want = {canon_flag(f) for f in dump['msgs'][sl.uid]['flags']}
            want.discard(RECENT)
            have = set(sl.flags)
            have.discard(RECENT)
            ctx.stat('flags_compared')
            if want != have:
                ctx.violate(prop, 'flags', 'session %d believes UID %d has '
                            'flags %s, mailbox has %s' % (
                                sid, sl.uid,
                                sorted(f.decode() for f in have),
                                sorted(f.decode() for f in want)),
                            session=sid)
                break


class C02(Profile):
    id = 'C02'
    BACKENDS = ('dict', 'dict', 'dict', 'maildir')
    level = 'exploration'
    quick_budget_s = 40.0
    thorough_budget_s = 420.0
    batch = 20
    rule = ('2-4 sessions, 10-30 steps biased to mutating commands (STORE/'
            'EXPUNGE/UID EXPUNGE/COPY/MOVE/APPEND with UID sets that lag '
            'reality); every 3-7 steps a quiescent point: holds released, '
            'IDLEs ended, every session sends NOOP or CHECK, then a read-only '
            'probe connection dumps the mailbox and each session\'s shadow '
            'view (UID set and believed flags) must equal it. Distinct = case '
            'hash with seeds erased; non-trivial = two or more sessions with '
            'commands in flight in one step.')
    assumptions = C01.assumptions + [
        'the probe (login, EXAMINE, UID FETCH 1:*, logout on a fresh '
        'connection) is taken as "the actual contents of the mailbox"']
    components = C01.components

    WEIGHTS = [3, 7, 4, 2, 2, 3, 2, 1, 1, 0, 1]

    def gen(self, rng, tier):
        from .common import backends, finish_cfg
        case = gen_concurrent_case(rng, tier, weights=self.WEIGHTS,
                                   len_range=(8, 30), fault_p=0.2,
                                   backends=backends(self.BACKENDS))
        return finish_cfg(add_quiescent_points(case, rng), rng)

    def run(self, case, trace=False):
        def after(ctx, i, step, cmds):
            if step.get('quiesce'):
                ctx.stat('quiescent_points')
                compare_views(ctx, 'C02', issued=cmds)
        return run_concurrent(case, 'C02', trace, after_step=after)


PROFILE = C02()
