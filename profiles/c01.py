"""C01 - sequence numbers: the client view never diverges from the server."""

from __future__ import annotations

import hashlib
import random

from sim.driver import Profile
from sim.engine import Ctx
from . import common
from .common import (USER, Tokens, append_action, flag_list, maybe_seed,
                     pick_buggify, seq_set, setup_steps, uid_set)

FETCH_ATTRS = [['FLAGS'], ['UID'], ['UID', 'FLAGS'], ['FLAGS', 'UID'],
               ['UID', 'RFC822.SIZE'], ['INTERNALDATE'],
               ['UID', 'BODY.PEEK[HEADER.FIELDS (X-Token)]'],
               ['BODY[HEADER.FIELDS (SUBJECT)]'], 'FAST', ['UID', 'ENVELOPE']]
SEARCHES = ['ALL', 'DELETED', 'UNSEEN', 'SEEN', 'NOT DELETED', 'RECENT',
            '1:*', 'UID 101:*', 'OR SEEN FLAGGED', '2:4', 'NEW']


def gen_session_action(rng: random.Random, sess: int, tokens: Tokens,
                       hi_uid: int, maxn: int, weights=None,
                       mailbox: str = 'INBOX', other: str = 'Other',
                       keywords=()) -> dict:
    kinds = ['append', 'store', 'expunge', 'uidexpunge', 'copy', 'move',
             'fetch', 'search', 'noop', 'check', 'idle']
    w = weights or [3, 5, 3, 1, 2, 2, 5, 2, 3, 1, 1]
    kind = rng.choices(kinds, w)[0]
    uid = rng.random() < 0.45
    the_set = uid_set(rng, 101, hi_uid) if uid else seq_set(rng, maxn)
    if kind == 'append':
        return append_action(rng, tokens, sess,
                             mailbox if rng.random() < 0.8 else other,
                             keywords=keywords)
    if kind == 'store':
        return {'sess': sess, 'kind': 'store', 'uid': uid, 'set': the_set,
                'op': rng.choice(['+', '+', '-', '']),
                'flags': flag_list(rng, keywords) or ['\\Deleted'],
                'silent': rng.random() < 0.3}
    if kind == 'expunge':
        return {'sess': sess, 'kind': 'expunge'}
    if kind == 'uidexpunge':
        return {'sess': sess, 'kind': 'expunge',
                'uid_set': uid_set(rng, 101, hi_uid)}
    if kind in ('copy', 'move'):
        return {'sess': sess, 'kind': kind, 'uid': uid, 'set': the_set,
                'mailbox': other if rng.random() < 0.7 else mailbox}
    if kind == 'fetch':
        return {'sess': sess, 'kind': 'fetch', 'uid': uid, 'set': the_set,
                'attrs': rng.choice(FETCH_ATTRS)}
    if kind == 'search':
        return {'sess': sess, 'kind': 'search', 'uid': uid,
                'keys': rng.choice(SEARCHES)}
    if kind == 'idle':
        return {'sess': sess, 'kind': 'idle'}
    return {'sess': sess, 'kind': kind}


def gen_concurrent_case(rng: random.Random, tier: str, backends=('dict',),
                        min_sessions: int = 2, max_sessions: int = 4,
                        weights=None, len_range=(10, 40),
                        hold_p: float = 0.08,
                        examine_p: float = 0.2,
                        fault_p: float = 0.08,
                        away_p: float = 0.04) -> dict:
    """2-4 sessions on one mailbox, several acting per step."""
    n = rng.randint(min_sessions, max_sessions)
    tokens = Tokens()
    n_init = rng.randint(0, 8)
    initial = []
    if n_init:
        msgs = []
        for _ in range(n_init):
            tok = tokens.take()
            m = {'data': common.make_message(tok), 'token': tok}
            if rng.random() < 0.5:
                m['flags'] = flag_list(rng, allow_recent=False)
            msgs.append(m)
        initial.append({'sess': 0, 'kind': 'append', 'mailbox': 'INBOX',
                        'msgs': msgs, 'literal': 'litplus'})
    backend = rng.choice(backends)
    cfg = {'backend': backend, 'users': [USER],
           'buggify': pick_buggify(rng), 'buggify_p': rng.choice([0.1, 0.3,
                                                                  0.6])}
    # some sessions only EXAMINE: their STORE/EXPUNGE/MOVE are refused, they
    # must still be told everything (session 0 always selects read-write)
    examine = [i for i in range(1, n) if rng.random() < examine_p]
    steps = setup_steps(n, initial=initial, examine=examine)
    hi = 100 + n_init
    maxn = max(1, n_init)
    idling: set[int] = set()
    holding: set[int] = set()
    dead: set[int] = set()
    away: set[int] = set()
    for _ in range(rng.randint(*len_range)):
        acts = []
        k = rng.choice([1, 2, 2, 3, n]) if n > 1 else 1
        for sess in rng.sample(range(n), min(k, n)):
            if sess in dead:
                continue
            if sess in away:
                # not selected: come back, or deliver from outside
                if rng.random() < 0.4:
                    acts.append({'sess': sess, 'mailbox': 'INBOX',
                                 'kind': 'examine' if sess in examine
                                 or rng.random() < 0.15 else 'select'})
                    away.discard(sess)
                elif rng.random() < 0.6:
                    act = append_action(rng, tokens, sess, 'INBOX')
                    hi += len(act['msgs'])
                    maxn += len(act['msgs'])
                    acts.append(act)
                continue
            if sess not in idling and sess not in holding \
                    and rng.random() < away_p:
                # leave the mailbox for a while (CLOSE expunges)
                acts.append({'sess': sess, 'kind': 'close'})
                away.add(sess)
                continue
            if sess in idling:
                if rng.random() < 0.5:
                    acts.append({'sess': sess, 'kind': 'done'})
                    idling.discard(sess)
                continue
            if sess in holding and rng.random() < 0.5:
                acts.append({'sess': sess, 'kind': 'unhold'})
                holding.discard(sess)
                continue
            if rng.random() < hold_p and sess not in holding:
                acts.append({'sess': sess, 'kind': 'hold',
                             'auto': rng.random() < 0.6})
                if not acts[-1]['auto']:
                    holding.add(sess)
            act = gen_session_action(rng, sess, tokens, hi + 2, maxn + 1,
                                     weights)
            if act['kind'] == 'append':
                hi += len(act['msgs'])
                maxn += len(act['msgs'])
            if act['kind'] in ('copy', 'move') and act['mailbox'] == 'INBOX':
                hi += 3
            if act['kind'] == 'idle':
                idling.add(sess)
            if rng.random() < 0.3:
                act['chunk_seed'] = rng.getrandbits(32)
            acts.append(act)
        if backend == 'maildir' and rng.random() < 0.15:
            # the delivery agent drops a message behind the server's back
            tok = tokens.take()
            acts.append({'kind': 'deliver', 'mailbox': 'INBOX',
                         'data': common.make_message(tok), 'token': tok,
                         'subdir': rng.choice(['new', 'new', 'cur']),
                         'info': rng.choice(['', '', 'S', 'FS']),
                         'at': rng.choice([0, rng.randint(1, 80)])})
            hi += 1
            maxn += 1
        if backend == 'maildir' and rng.random() < 0.15:
            # another process holds the UID-list lock file for a while
            acts.append({'kind': 'extlock', 'mailbox': 'INBOX',
                         'hold': rng.choice([0.005, 0.02, 0.05, 0.12, 0.3,
                                             0.7]),
                         'at': rng.choice([0, rng.randint(1, 60)])})
        step = {'actions': acts, 'sched_seed': maybe_seed(rng)}
        victims = [a['sess'] for a in acts
                   if a.get('sess') not in (None, 0)
                   and a['kind'] not in ('hold', 'unhold', 'done')]
        if victims and rng.random() < fault_p:
            # a session dies in the middle of its command (the task is
            # cancelled or the peer resets); the others must not notice
            # anything but its effects
            v = rng.choice(victims)
            step['faults'] = [{'kind': rng.choice(['cancel', 'reset']),
                               'sess': v, 'at': rng.randint(0, 40)}]
            idling.discard(v)
            holding.discard(v)
            away.discard(v)
            dead.add(v)
        if acts:
            steps.append(step)
        if dead and rng.random() < 0.3:
            v = dead.pop() if len(dead) == 1 else sorted(dead)[0]
            dead.discard(v)
            for act in ({'kind': 'connect'},
                        {'kind': 'login', 'user': USER['name'],
                         'password': USER['password']},
                        {'kind': 'examine' if v in examine else 'select',
                         'mailbox': 'INBOX'}):
                steps.append({'actions': [dict(act, sess=v)],
                              'sched_seed': None})
    # wind down: everybody back in, release holds, end idles, NOOP everywhere
    if away:
        steps.append({'actions': [{'sess': i, 'mailbox': 'INBOX',
                                   'kind': 'examine' if i in examine
                                   else 'select'} for i in sorted(away)],
                      'sched_seed': None})
    steps.append({'actions': [{'sess': i, 'kind': 'unhold'}
                              for i in sorted(holding)] +
                  [{'sess': i, 'kind': 'done'} for i in sorted(idling)],
                  'sched_seed': None})
    steps.append({'actions': [{'sess': i, 'kind': 'noop'} for i in range(n)],
                  'sched_seed': None})
    if any(st.get('faults') for st in steps) and rng.random() < 0.85:
        # a death is most interesting while the victim waits for a lock
        for kind in ('lock_stall', 'lock_yield'):
            if kind not in cfg['buggify']:
                cfg['buggify'].append(kind)
    return {'config': cfg, 'steps': steps}


def run_concurrent(case: dict, prop: str, trace: bool = False,
                   after_step=None, at_end=None, keep=None) -> dict:
    ctx = Ctx(case, trace=trace)
    effect_order = []
    try:
        concurrent = False
        for i, step in enumerate(case['steps']):
            cmds = ctx.run_step(step, i)
            live = [c for c in cmds if c is not None]
            if len({id(c) for c in live}) >= 2 and \
                    len({a.get('sess') for a in step['actions']}) >= 2:
                concurrent = True
            for c in sorted(live, key=lambda c: c.seq_return or 1 << 60):
                effect_order.append('%s:%s' % (c.tag[:1].decode(), c.kind))
            if after_step is not None:
                after_step(ctx, i, step, cmds)
        if at_end is not None:
            at_end(ctx)
        ctx.finish()
        res = ctx.result()
        shadow_stats = {'glass_checks': 0, 'glass_missing': 0,
                        'expunges_seen': 0, 'exists_seen': 0,
                        'fetch_seen': 0}
        for cl in ctx.clients.values():
            for k in shadow_stats:
                shadow_stats[k] += getattr(cl.shadow, k)
        res['stats'].update(shadow_stats)
        res['violations'] = [v for v in res['violations']
                             if v['property'] == prop
                             or (keep is not None and keep(v))]
        fired = res['fired']
        res['nontrivial'] = concurrent or any(
            k.startswith('fault:') for k in fired)
        res['inter'] = [hashlib.sha1('|'.join(effect_order).encode())
                        .hexdigest()[:16]]
        if trace:
            res['trace'] = ctx.world.trace
        return res
    finally:
        ctx.close()


class C01(Profile):
    id = 'C01'
    BACKENDS = ('dict', 'dict', 'dict', 'maildir')
    level = 'exploration'
    quick_budget_s = 40.0
    thorough_budget_s = 420.0
    batch = 25
    rule = ('2-4 sessions on one mailbox (0-8 initial messages), 10-40 steps '
            'with 1-4 sessions acting per step over APPEND/STORE/EXPUNGE/'
            'UID EXPUNGE/COPY/MOVE/FETCH/SEARCH/NOOP/CHECK/IDLE; arrival '
            'order, input chunking, held drains, lock/drain yields and weak-'
            'set order drawn from per-step seeds. Distinct = hash of the case '
            'with seeds erased; non-trivial = at least one step in which two '
            'or more sessions had commands in flight together, or a fault '
            'fired. distinct_interleavings = distinct hashes of the '
            '(session, command) completion order.')
    assumptions = [
        '5 s wall watchdog per loop iteration decides "hang"',
        'asyncio subsystem; await points that never suspend in production '
        'are made to suspend only by the lock_yield/drain_yield buggify kinds',
        'glass-box cross-check reads ConnectionState._selected.messages.'
        '_sorted; if that path disappears the check degrades to black-box '
        '(glass_missing counts it)']
    components = {
        'real': ['pymap.imap', 'pymap.parsing', 'pymap.selected',
                 'pymap.backend.session', 'pymap.backend.dict (3 of 4 '
                 'cases)', 'pymap.backend.maildir + stdlib mailbox.Maildir '
                 'on a tmpfs tree behind the SimFS interposer (1 of 4 cases)',
                 'pymap.concurrent (asyncio primitives, FileLock)', 'pysasl'],
        'stub': ['TCP/StreamWriter (SimConn; StreamReader is the stdlib one)',
                 'TLS', 'thread pools (both backends run under the asyncio '
                 'subsystem)', 'redis backend (not installed)']}

    def gen(self, rng, tier):
        from .common import backends, finish_cfg
        return finish_cfg(gen_concurrent_case(
            rng, tier, backends=backends(self.BACKENDS)), rng)

    def run(self, case, trace=False):
        return run_concurrent(case, 'C01', trace)


PROFILE = C01()
