"""C14 - no message is lost or half-applied when a command fails midway."""

from __future__ import annotations

import copy
import hashlib
import json
import random

from sim.driver import Profile
from sim.engine import Ctx, Violation, make_message, token_of
from .c01 import C01
from .common import USER, Tokens, seq_set, uid_set

FAULT_KINDS = ['cancel', 'reset', 'eof']
SPACE_OPS = ('open-w', 'os.open-w', 'close-w', 'link', 'rename', 'mkdir')


def gen_fault_case(rng: random.Random, tier: str, backends=('dict',)) -> dict:
    cfg = {'backend': rng.choice(backends), 'users': [USER],
           'buggify': ['lock_yield', 'drain_yield'], 'buggify_p': 1.0,
           'bad_command_limit': 0}
    if rng.random() < 0.25:
        cfg['buggify'] = []
    tokens = Tokens()

    def msgs(k, deleted_p=0.0):
        out = []
        for _ in range(k):
            t = tokens.take()
            m = {'data': make_message(t), 'token': t}
            if rng.random() < deleted_p:
                m['flags'] = ['\\Deleted']
            out.append(m)
        return out
    n_src = rng.randint(1, 5)
    setup = [
        {'actions': [{'sess': 0, 'kind': 'connect'},
                     {'sess': 1, 'kind': 'connect'}]},
        {'actions': [{'sess': 0, 'kind': 'login', 'user': 'user',
                      'password': 'pass'},
                     {'sess': 1, 'kind': 'login', 'user': 'user',
                      'password': 'pass'}]},
        {'actions': [{'sess': 0, 'kind': 'create', 'mailbox': 'Dest'}]},
        {'actions': [{'sess': 0, 'kind': 'append', 'mailbox': 'INBOX',
                      'literal': 'litplus', 'msgs': msgs(n_src, 0.4)}]},
        {'actions': [{'sess': 0, 'kind': 'append', 'mailbox': 'Dest',
                      'literal': 'litplus', 'msgs': msgs(rng.randint(0, 2))}]},
        {'actions': [{'sess': 0, 'kind': 'select', 'mailbox': 'INBOX'},
                     {'sess': 1, 'kind': 'select',
                      'mailbox': rng.choice(['INBOX', 'Dest'])}]}]
    kind = rng.choice(['move', 'move', 'copy', 'append', 'append', 'expunge',
                       'uidexpunge'])
    uid = rng.random() < 0.4
    the_set = uid_set(rng, 101, 100 + n_src) if uid else seq_set(rng, n_src)
    if kind in ('move', 'copy'):
        target = {'kind': kind, 'uid': uid, 'set': the_set,
                  'mailbox': rng.choice(['Dest', 'Dest', 'INBOX', 'Missing'])}
    elif kind == 'append':
        target = {'kind': 'append', 'mailbox': rng.choice(['INBOX', 'Dest']),
                  'msgs': msgs(rng.choice([1, 2, 3, 4])),
                  'literal': rng.choice(['lit', 'litplus'])}
    elif kind == 'expunge':
        target = {'kind': 'expunge'}
    else:
        target = {'kind': 'expunge', 'uid_set': uid_set(rng, 101,
                                                        100 + n_src)}
    target['sess'] = 0
    target['target'] = True
    acts = [target]
    if rng.random() < 0.5:
        other = rng.choice([
            {'kind': 'expunge'},
            {'kind': 'store', 'set': '1:*', 'op': '+',
             'flags': ['\\Deleted']},
            {'kind': 'append', 'mailbox': 'Dest', 'literal': 'litplus',
             'msgs': msgs(1)},
            {'kind': 'move', 'set': '1', 'mailbox': 'Dest'},
            {'kind': 'noop'}])
        other = dict(other, sess=1)
        acts.append(other)
        rng.shuffle(acts)
    step = {'actions': acts, 'sched_seed': rng.getrandbits(32),
            'target_step': True}
    return {'config': cfg, 'steps': setup + [step]}


def dump_tokens(ctx: Ctx, name: str):
    d = ctx.probe(name, body=True)
    if d is None:
        return None
    out = {}
    for uid, rec in d['msgs'].items():
        tok = token_of(bytes(rec['body'] or b''))
        out.setdefault(tok, []).append(
            (uid, tuple(sorted(rec['flags']))))
    return out


def run_once(case: dict, fault: dict | None, trace: bool = False) -> dict:
    ctx = Ctx(case, trace=trace)
    info = {'moves': 0, 'fs_ops': 0, 'violations': [], 'cond': None}
    try:
        steps = case['steps']
        for i, step in enumerate(steps[:-1]):
            ctx.run_step(step, i)
            for cl in ctx.clients.values():
                cl.pending.clear()
        before = {n: dump_tokens(ctx, n) for n in ('INBOX', 'Dest')}
        step = copy.deepcopy(steps[-1])
        fs = ctx.world.fs
        if fault is not None and fault['kind'] == 'oserror':
            # the n-th mutating file-system call of the step fails
            import errno
            if fs is not None:
                fs.fail_at[fs.mutations + fault['at']] = errno.ENOSPC
        elif fault is not None and fault['kind'] == 'locktimeout':
            # another process takes the UID-list lock of one of the two
            # folders at this scheduler position and keeps it longer than
            # FileLock waits: the command ends in NO [TIMEOUT]
            step['faults'] = [{'kind': 'extlock', 'at': fault['at'],
                               'mailbox': fault.get('mailbox', 'INBOX'),
                               'hold': 40.0}]
            step['horizon'] = 45.0
        elif fault is not None:
            step['faults'] = [{'kind': fault['kind'], 'sess': 0,
                               'at': fault['at']}]
        m0 = ctx.world.moves
        f0 = fs.mutations if fs is not None else 0
        l0 = len(fs.log) if fs is not None else 0
        cmds = ctx.run_step(step, len(steps) - 1)
        info['moves'] = ctx.world.moves - m0
        info['fs_ops'] = (fs.mutations - f0) if fs is not None else 0
        if fs is not None:
            from sim.fs import MUTATING
            info['fs_kinds'] = [op for _, op, _, _ in fs.log[l0:]
                                if op in MUTATING]
        if fs is not None:
            fs.fail_at.clear()
        ctx.run_step({'actions': []}, len(steps))      # let things settle
        target = None
        tcmd = None
        for act, cmd in zip(step['actions'], cmds):
            if act.get('target'):
                target, tcmd = act, cmd
        after = {n: dump_tokens(ctx, n) for n in ('INBOX', 'Dest')}
        cond = tcmd.cond if tcmd is not None else None
        info['cond'] = cond
        other_active = len(step['actions']) > 1
        what = '%s%s answered %s with fault %s' % (
            target['kind'].upper(), ' (with a second session acting)'
            if other_active else '', cond, fault)

        def violate(clause, detail):
            ctx.violate('C14', clause, '%s: %s' % (what, detail),
                        sig={'command': target['kind'],
                             'fault': fault['kind'] if fault else 'none'})
        if before['INBOX'] is None or after['INBOX'] is None or \
                after['Dest'] is None:
            return info
        b_all = set(before['INBOX']) | set(before['Dest'] or ())
        a_all = set(after['INBOX']) | set(after['Dest'])
        kind = target['kind']
        deleted_before = {t for t, recs in before['INBOX'].items()
                          if any('\\Deleted' in {f.decode() for f in fl}
                                 for _, fl in recs)}
        # what the *other* session may legitimately have removed
        may_vanish = set()
        for act in step['actions']:
            if act.get('target'):
                continue
            if act['kind'] == 'expunge':
                may_vanish |= set(before['INBOX']) | set(before['Dest'])
            if act['kind'] == 'store':
                may_vanish |= set(before['INBOX']) | set(before['Dest'])
        if kind == 'expunge':
            may_vanish |= deleted_before
            # another session may flag more messages \Deleted in this step
            if any(a['kind'] == 'store' and not a.get('target')
                   for a in step['actions']):
                may_vanish |= set(before['INBOX'])
        lost = (b_all - a_all) - may_vanish
        if lost:
            violate('lost', 'tokens %s were in the store before and are in '
                    'neither mailbox afterwards (before: INBOX %s Dest %s; '
                    'after: INBOX %s Dest %s)' % (
                        sorted(lost), sorted(before['INBOX']),
                        sorted(before['Dest'] or ()),
                        sorted(after['INBOX']), sorted(after['Dest'])))
            return info
        if kind == 'append':
            mine = {m['token'] for m in target['msgs']}
            present = mine & a_all
            if cond in ('NO', 'BAD') and present:
                violate('append-refused-stored', 'APPEND of tokens %s '
                        'answered %s but %s are in the mailbox'
                        % (sorted(mine), cond, sorted(present)))
                return info
            if cond is None and present and present != mine:
                # no tagged reply was seen (the fault may have eaten it): the
                # command either took effect completely or not at all
                violate('append-partial', 'APPEND of tokens %s did not '
                        'complete but %s of them are in the mailbox'
                        % (sorted(mine), sorted(present)))
                return info
            if cond == 'OK' and present != mine:
                violate('append-incomplete', 'APPEND answered OK but only '
                        '%s of %s are stored' % (sorted(present),
                                                 sorted(mine)))
                return info
        if kind == 'move' and cond == 'OK' and target['mailbox'] == 'Dest':
            both = set(after['INBOX']) & set(after['Dest']) - \
                (set(before['INBOX']) & set(before['Dest'] or ()))
            if both and not other_active:
                violate('move-duplicate', 'after a completed MOVE tokens %s '
                        'are in both mailboxes' % sorted(both))
                return info
        if cond in ('NO', 'BAD') and not other_active:
            if after != before:
                violate('refused-changed', 'command ended in %s but mailbox '
                        'contents changed: %r -> %r' % (cond, before, after))
        return info
    finally:
        info['violations'] = [v for v in ctx.violations
                              if v['property'] == 'C14']
        ctx.finish()
        info['result'] = ctx.result()
        if trace:
            info['result']['trace'] = ctx.world.trace
        ctx.close()


def run_enumeration(case: dict, trace: bool = False) -> dict:
    only = case.get('only_fault')
    base = run_once(case, None, trace and only is None)
    res = base['result']
    res['violations'] = list(base['violations'])
    digests = [res['digest']]
    stats = res['stats']
    stats['fault_runs'] = 0
    stats['fault_points'] = base['moves']
    fired = dict(res.get('fired', {}))
    if not res['violations']:
        points = range(base['moves'] + 1)
        plan = [(k, at) for k in FAULT_KINDS for at in points]
        # maildir: an exception (ENOSPC) from the n-th storage call
        # (disk full: only calls that need space can fail that way)
        space = [at for at, op in enumerate(base.get('fs_kinds', ()))
                 if op in SPACE_OPS]
        plan += [('oserror', at) for at in space]
        stats['fs_fault_points'] = len(space)
        if base.get('fs_ops', 0):
            # maildir: a lock timeout at 8 evenly spaced scheduler positions,
            # on either folder
            n = base['moves']
            spots = sorted({round(k * n / 7) for k in range(8)})
            plan += [('locktimeout:' + mb, at)
                     for mb in ('INBOX', 'Dest') for at in spots]
        if only is not None:
            plan = [(only['kind'] + (':' + only['mailbox']
                                      if only.get('mailbox') else ''),
                     only['at'])]
        for kind, at in plan:
            f = {'kind': kind, 'at': at}
            if kind.startswith('locktimeout:'):
                f = {'kind': 'locktimeout', 'at': at,
                     'mailbox': kind.split(':', 1)[1]}
            elif only is not None and only.get('mailbox'):
                f['mailbox'] = only['mailbox']
            r = run_once(case, f, trace and only is not None)
            stats['fault_runs'] += 1
            fired['fault:' + kind] = fired.get('fault:' + kind, 0) + 1
            digests.append(r['result']['digest'])
            if r['violations']:
                for v in r['violations']:
                    v['fault'] = dict(f)
                res['violations'] = r['violations']
                if trace:
                    res['trace'] = r['result'].get('trace')
                break
    res['fired'] = fired
    res['digest'] = hashlib.sha256(''.join(digests).encode()).hexdigest()
    res['nontrivial'] = stats['fault_runs'] >= 3
    return res


class C14(Profile):
    id = 'C14'
    BACKENDS = ('dict', 'dict', 'dict', 'maildir')
    level = 'fault_enumeration'
    quick_budget_s = 45.0
    thorough_budget_s = 420.0
    batch = 6
    rule = ('base case: two sessions, INBOX with 1-5 messages (40% flagged '
            '\\Deleted) and Dest with 0-2; target command MOVE / COPY / APPEND '
            'of 1-4 messages / EXPUNGE / UID EXPUNGE by session 0 with '
            'sequence or UID sets, in half of the cases a second session '
            'acting in the same step (EXPUNGE, STORE \\Deleted, APPEND, MOVE, '
            'NOOP); every lock acquire/release and drain() is a real '
            'suspension point (lock_yield/drain_yield with p=1; 25% without). '
            'The case is run fault-free to count the scheduler moves of the '
            'target step (N), then re-run once per fault kind (task '
            'cancellation, connection reset, client EOF) x every position '
            '0..N, and on maildir once per mutating file-system call of the '
            'target step that needs disk space (create, write-out at close, '
            'link, rename, mkdir) with that call raising OSError(ENOSPC): '
            'exhaustive '
            'per base case; also on maildir, at 8 evenly spaced positions '
            'and for either folder, another process takes the UID-list lock '
            'for longer than FileLock waits, so that the command ends in '
            'NO [TIMEOUT] (sampled, not exhaustive). Probe dumps of both mailboxes '
            'before and after. Oracle: conservation of tokens, APPEND '
            'all-or-nothing, completed MOVE in exactly one mailbox, NO/BAD '
            'changes nothing. evaluations = base cases; fault_runs counts '
            'the faulted executions. Non-trivial = >= 3 faulted executions.')
    assumptions = C01.assumptions + [
        'on the dict backend the window between removing a moved message '
        'and adding it to the destination only opens at awaits that suspend '
        'under lock_yield (asyncio.Lock never suspends uncontended)',
        'storage-call failures are injected on maildir only (the dict '
        'backend has no storage calls); process kill is exercised by C15']
    components = C01.components

    def gen(self, rng, tier):
        from .common import backends, finish_cfg
        return finish_cfg(gen_fault_case(
            rng, tier, backends=backends(self.BACKENDS)), rng)

    def run(self, case, trace=False):
        return run_enumeration(case, trace)

    def simplify(self, case):
        # pin the failing fault so that the replay is one execution
        if case.get('only_fault') is None:
            res = run_enumeration(case)
            for v in res['violations']:
                if v.get('fault'):
                    c = json.loads(json.dumps(case))
                    c['only_fault'] = v['fault']
                    yield c
                    break
        if case['config'].get('buggify'):
            c = json.loads(json.dumps(case))
            c['config']['buggify'] = []
            yield c
        step = case['steps'][-1]
        if len(step['actions']) > 1:
            c = json.loads(json.dumps(case))
            c['steps'][-1]['actions'] = [a for a in step['actions']
                                         if a.get('target')]
            yield c


PROFILE = C14()
