"""C11 - mailbox namespace commands behave as the reference model says."""

from __future__ import annotations

import random

from sim.client import mutf7_decode
from sim.driver import Profile
from sim.engine import Ctx, make_message, token_of
from .c01 import C01
from .common import USER, Tokens

PARTS = ['a', 'b', 'Work', 'x y', 'st*r', 'p%c', 'q"t', 'b\\s', 'l\nf', 'a&b',
         'é', '日本', 'inbox', 'Inbox', 'INBOX', 'c\rr', '(p)', '{3}', '~',
         'NIL', 'a.b', 'zz' * 20,
         # names a directory-backed store uses for itself, and names that a
         # line-oriented control file may not give back as written
         'cur', 'new', 'tmp', 'a ', ' b', 'dovecot-uidlist', 'subscriptions']
STORE_NAMES = ('cur', 'new', 'tmp', 'dovecot-uidlist', 'subscriptions')
PATTERNS = ['*', '%', '%/%', '*/*', 'a*', 'a%', '*b', '%b', 'a/*', 'a/%',
            'INBOX', 'inbox', 'in*', 'I%', '*é*', '%日本', 'Work/%/%', '**',
            '%%', '*%', '%*', 'a/b', 'st*r', 'st\\*r', 'x y', '*\n*', 'l%f',
            '', '*a*b*', 'zz%']


def canon(name: str) -> str:
    return 'INBOX' if name.upper() == 'INBOX' else name


def gen_name(rng: random.Random, existing: list[str]) -> str:
    r = rng.random()
    if existing and r < 0.35:
        base = rng.choice(existing)
        if '/' in base and rng.random() < 0.2:
            # a proper ancestor of a name in use: perhaps never created
            return base.rsplit('/', rng.randint(1, base.count('/')))[0]
        if rng.random() < 0.5 or base.upper() == 'INBOX':
            return base
        if rng.random() < 0.3:
            # a sibling whose name begins with the whole of this one
            return base + rng.choice(['s', '&b', ' ', '-1', 'x y'])
        return base + '/' + rng.choice(PARTS)
    depth = rng.choice([1, 1, 1, 2, 3, 3, 4])
    parts = [rng.choice(PARTS) for _ in range(depth)]
    if depth >= 3 and rng.random() < 0.4:
        # the same piece at several levels (a/b/a, a/a/a)
        parts[rng.randrange(1, depth)] = parts[0]
    # what RENAME INBOX does to inferiors of (a case variant of) INBOX is
    # left open by the statement: they are rare, and exactly INBOX/...
    if depth > 1 and parts[0].upper() == 'INBOX':
        parts[0] = 'INBOX' if rng.random() < 0.3 else 'a'
    return '/'.join(parts)


def gen_ns_case(rng: random.Random, tier: str, backends=('dict',)) -> dict:
    cfg = {'backend': rng.choice(backends), 'users': [USER],
           'bad_command_limit': 0, 'buggify': []}
    tokens = Tokens()
    names: list[str] = []
    seen: set[str] = set()
    steps = []
    for _ in range(rng.randint(5, 30)):
        kind = rng.choices(
            ['create', 'delete', 'rename', 'subscribe', 'unsubscribe',
             'list', 'lsub', 'status', 'select', 'append'],
            [7, 4, 5, 3, 2, 5, 3, 3, 2, 4])[0]
        act = {'kind': kind, 'sess': 0,
               'spelling': rng.choice(['auto', 'quoted', 'litplus', 'lit'])}
        if kind in ('list', 'lsub'):
            ref = ''
            pat = rng.choice(PATTERNS)
            if rng.random() < 0.4:
                # composed from wildcards, delimiters and pieces of existing
                # names: */%, *a%, %/*/%, a*/%b ...
                pieces = ['*', '%', '/', '*', '%', '/', 'a', 'b']
                for n in names[:6]:
                    pieces += [x for x in n.split('/') if x][:2]
                pat = ''.join(rng.choice(pieces)
                              for _ in range(rng.randint(2, 5)))
            if rng.random() < 0.25 and names:
                ref = rng.choice(names).split('/')[0] + '/'
                pat = rng.choice(['*', '%', '%/%', 'b', ''])
            act['ref'] = ref
            act['pattern'] = pat
        elif kind == 'rename':
            act['mailbox'] = gen_name(rng, names)
            if canon(act['mailbox']) == 'INBOX' and any(
                    n.upper().startswith('INBOX/') for n in seen):
                # what RENAME INBOX does to inferiors of INBOX is left open
                # by the statement: not asked once such names are around
                act['mailbox'] = 'a'
            to = gen_name(rng, names)
            while to.startswith(act['mailbox'] + '/'):
                to = gen_name(rng, [])
            act['to'] = to
        elif kind == 'append':
            act['mailbox'] = gen_name(rng, names) if rng.random() < 0.8 \
                else 'INBOX'
            tok = tokens.take()
            act['msgs'] = [{'data': make_message(tok), 'token': tok}]
            act['literal'] = 'litplus'
        else:
            act['mailbox'] = gen_name(rng, names)
        if kind == 'create':
            names.append(act['mailbox'])
        if kind == 'rename':
            names.append(act['to'])
        seen.update(act.get(k) for k in ('mailbox', 'to') if act.get(k))
        if kind == 'status':
            act['items'] = ['MESSAGES', 'UIDNEXT', 'UIDVALIDITY',
                            'MAILBOXID']
        if rng.random() < 0.2:
            act['chunk_seed'] = rng.getrandbits(32)
        steps.append({'actions': [act], 'sched_seed': None})
    return {'config': cfg, 'steps': steps}


class NsModel:

    def __init__(self) -> None:
        # name -> {'id': mailbox id or None, 'uidvalidity':..., 'tokens': []}
        self.boxes: dict[str, dict] = {'INBOX': self._new()}
        self.subscribed: set[str] = set()
        # superiors that CREATE/RENAME may have created as real mailboxes
        # (RFC 3501 6.3.3: the server SHOULD create them)
        self.implicit: set[str] = set()
        self.backend = 'dict'

    def note_created(self, name: str) -> None:
        parts = name.split('/')
        for i in range(1, len(parts)):
            anc = '/'.join(parts[:i])
            if anc not in self.boxes:
                self.implicit.add(anc)

    def may_refuse_create(self, name: str) -> bool:
        """New names a backend may legitimately refuse."""
        parts = name.split('/')
        for i in range(1, len(parts)):
            if '/'.join(parts[:i]) not in self.boxes:
                return True         # a superior does not exist
        if self.backend == 'maildir':
            # directory-backed names: '.' is the Maildir++ separator, CR/LF
            # cannot be kept in the subscriptions file
            # cur, new and tmp are the store's own directories in the fs
            # layout, and its control files sit next to the sub-folders
            # (and the fs layout has no place for inferiors of INBOX)
            return any('.' in p or '\r' in p or '\n' in p
                       or p in STORE_NAMES for p in parts) \
                or parts[0] == 'INBOX'
        return False

    @staticmethod
    def _new() -> dict:
        return {'id': None, 'uidvalidity': None, 'tokens': [], 'uids': None}

    def ancestors(self) -> set[str]:
        out = set()
        for name in self.boxes:
            parts = name.split('/')
            for i in range(1, len(parts)):
                out.add('/'.join(parts[:i]))
        return out - set(self.boxes)


def wild_match(pattern: str, name: str) -> bool:
    """'*' any characters, '%' any except '/'; written from RFC 3501 6.3.8,
    dynamic programming, no regex."""
    n = len(name)
    cur = {0}
    for ch in pattern:
        nxt = set()
        if ch == '*':
            lo = min(cur)
            nxt = set(range(lo, n + 1))
        elif ch == '%':
            for p in cur:
                q = p
                nxt.add(q)
                while q < n and name[q] != '/':
                    q += 1
                    nxt.add(q)
        else:
            for p in cur:
                if p < n and name[p] == ch:
                    nxt.add(p + 1)
        if not nxt:
            return False
        cur = nxt
    return n in cur


def matches(pattern: str, name: str) -> bool:
    if name == 'INBOX':
        return wild_match(pattern.upper(), 'INBOX')
    return wild_match(pattern, name)


def parse_listing(ctx, cmd, what: str):
    """-> {name: attrs} decoded with the harness's own mUTF-7 decoder."""
    out = {}
    for r in cmd.untagged:
        if r.name not in (b'LIST', b'LSUB'):
            continue
        attrs, sep, raw = r.data
        try:
            name = mutf7_decode(bytes(raw))
        except Exception:
            ctx.violate('C11', 'mutf7', '%s: name %r is not valid modified '
                        'UTF-7' % (what, bytes(raw)))
            return None
        if name in out:
            ctx.violate('C11', 'duplicate', '%s: %r listed twice'
                        % (what, name))
            return None
        out[name] = {a.lower() for a in attrs}
    return out


def check_listing(ctx, model: NsModel, cmd, what: str, pattern: str,
                  lsub: bool) -> None:
    got = parse_listing(ctx, cmd, what)
    if got is None:
        return
    if pattern == '':
        return      # LIST "" "": hierarchy delimiter query
    existing = set(model.boxes)
    anc = model.ancestors()
    if lsub:
        must = {n for n in existing if n in model.subscribed} | {'INBOX'}
        may = set(model.subscribed) | anc | {
            a for n in model.subscribed for a in _ancestors_of(n)}
    else:
        must = existing
        may = set(model.implicit)
    want = {n for n in must if matches(pattern, n)}
    selectable = {n for n, attrs in got.items() if b'\\noselect' not in attrs}
    noselect = set(got) - selectable
    missing = want - set(got)
    if missing:
        ctx.violate('C11', 'list-missing', '%s: pattern %r must list %s '
                    '(got %s)' % (what, pattern, sorted(missing),
                                  sorted(got)))
        return
    extra = {n for n in selectable if n not in want
             and not (n in may and matches(pattern, n))}
    if extra:
        ctx.violate('C11', 'list-extra', '%s: pattern %r listed %s which '
                    'do not exist or do not match (existing: %s)'
                    % (what, pattern, sorted(extra), sorted(existing)))
        return
    if not lsub:
        for n in selectable & model.implicit:
            model.boxes[n] = model._new()       # it does exist, then
            model.implicit.discard(n)
    for n in noselect:
        ok_name = (n in anc or n in may) and matches(pattern, n)
        if n in existing and not lsub:
            ctx.violate('C11', 'list-noselect', '%s: existing mailbox %r is '
                        'marked \\Noselect' % (what, n))
            return
        if not ok_name and n not in existing:
            ctx.violate('C11', 'list-extra', '%s: \\Noselect entry %r is not '
                        'a proper ancestor of an existing name matching %r'
                        % (what, n, pattern))
            return


def _ancestors_of(name: str):
    parts = name.split('/')
    return ['/'.join(parts[:i]) for i in range(1, len(parts))]


def run_ns(case: dict, trace: bool = False) -> dict:
    ctx = Ctx(case, trace=trace)
    model = NsModel()
    model.backend = case['config'].get('backend', 'dict')
    effective = 0
    try:
        ctx.run_step({'actions': [{'sess': 0, 'kind': 'connect'}]}, -1)
        ctx.run_step({'actions': [{'sess': 0, 'kind': 'login', 'user': 'user',
                                   'password': 'pass'}]}, -1)
        cl = ctx.clients[0]

        def do(action):
            return ctx.run_step({'actions': [dict(action, sess=0)],
                                 'sched_seed': None}, ctx.step_index)[0]

        def full_check(what: str) -> bool:
            c = do({'kind': 'list', 'ref': '', 'pattern': '*'})
            if c is None or not c.ok:
                ctx.violate('C11', 'list', '%s: LIST "" * answered %r'
                            % (what, c and c.result))
                return False
            n = len(ctx.violations)
            check_listing(ctx, model, c, what + ' / LIST "" *', '*', False)
            return len(ctx.violations) == n

        def contents(name: str):
            d = ctx.probe(name, body=True)
            if d is None:
                return None
            return ([(u, token_of(bytes(r['body'] or b'')))
                     for u, r in sorted(d['msgs'].items())],
                    d['info'].get('uidvalidity'), d['info'].get('mailboxid'))

        for i, step in enumerate(case['steps']):
            ctx.step_index = i
            if cl.conn.done or any(v['property'] == 'C11'
                                   for v in ctx.violations):
                break
            act = step['actions'][0]
            kind = act['kind']
            before = None
            if kind == 'rename':
                src = canon(act['mailbox'])
                if src in model.boxes:
                    before = {n: contents(n) for n in model.boxes
                              if n == src or n.startswith(src + '/')}
            cmds = ctx.run_step(step, i)
            cmd = cmds[0]
            cl.pending.clear()
            if cmd is None:
                continue
            what = 'step %d %s %r' % (i, kind.upper(), act.get('mailbox',
                                                               act.get('ref')))
            if cmd.result is None:
                if not cl.conn.done:
                    ctx.violate('C11', 'unanswered', what)
                break
            cond = cmd.cond
            name = canon(act['mailbox']) if 'mailbox' in act else None
            if kind == 'create':
                if name == 'INBOX' or name in model.boxes:
                    if cond == 'OK':
                        ctx.violate('C11', 'create-existing', '%s: existing '
                                    'name accepted' % what)
                    elif cond != 'NO':
                        ctx.stat('refused_with_bad')
                elif cond == 'OK':
                    model.boxes[name] = model._new()
                    model.implicit.discard(name)
                    model.note_created(name)
                    effective += 1
                elif cond == 'NO' and name in model.implicit:
                    ctx.stat('create_of_implicit_name_refused')
                elif cond == 'NO' and not model.may_refuse_create(name):
                    ctx.violate('C11', 'create-refused', '%s: new name '
                                'answered NO %r' % (what, cmd.result.text))
            elif kind == 'delete':
                if name in model.implicit:
                    if cond == 'OK':
                        model.implicit.discard(name)
                elif name == 'INBOX' or name not in model.boxes:
                    if cond == 'OK':
                        ctx.violate('C11', 'delete-missing', '%s: answered '
                                    'OK' % what)
                elif cond == 'OK':
                    del model.boxes[name]
                    effective += 1
                elif cond == 'NO' and not any(
                        n.startswith(name + '/') for n in model.boxes):
                    ctx.violate('C11', 'delete-refused', '%s: existing '
                                'mailbox without inferiors answered NO'
                                % what)
            elif kind == 'rename':
                to = canon(act['to'])
                if name not in model.boxes and name in model.ancestors() \
                        and cond == 'OK' and to not in model.boxes:
                    # renaming a \\Noselect hierarchy name moves its inferiors
                    ctx.stat('rename_of_noselect_name')
                    for n in list(model.boxes):
                        if n.startswith(name + '/'):
                            model.boxes[to + n[len(name):]] = \
                                model.boxes.pop(n)
                elif name not in model.boxes:
                    if cond == 'OK':
                        ctx.violate('C11', 'rename-missing', '%s: missing '
                                    'source answered OK' % what)
                elif to == 'INBOX' or to in model.boxes:
                    if cond == 'OK':
                        ctx.violate('C11', 'rename-overwrite', '%s -> %r: '
                                    'existing target answered OK'
                                    % (what, to))
                elif cond == 'OK':
                    effective += 1
                    moved = {}
                    for n in list(model.boxes):
                        if n == name or (n.startswith(name + '/')
                                         and name != 'INBOX'):
                            moved[n] = to + n[len(name):]
                    for old, new in moved.items():
                        model.boxes[new] = model.boxes.pop(old)
                        model.implicit.discard(new)
                        model.note_created(new)
                    if name == 'INBOX':
                        model.boxes['INBOX'] = model._new()
                    for old, new in moved.items():
                        if before is None or before.get(old) is None:
                            continue
                        after = contents(new)
                        if after is None:
                            ctx.violate('C11', 'rename-lost', '%s -> %r: %r '
                                        'cannot be selected afterwards'
                                        % (what, to, new))
                            break
                        if after[0] != before[old][0]:
                            ctx.violate('C11', 'rename-contents', '%s: %r '
                                        'held %s, %r holds %s'
                                        % (what, old, before[old][0], new,
                                           after[0]))
                            break
                        if after[1] != before[old][1] or \
                                after[2] != before[old][2]:
                            ctx.violate('C11', 'rename-identity', '%s: '
                                        'UIDVALIDITY/MAILBOXID changed from '
                                        '%r to %r' % (what, before[old][1:],
                                                      after[1:]))
                            break
                    if name == 'INBOX' and before is not None:
                        left = contents('INBOX')
                        if left is None or left[0]:
                            ctx.violate('C11', 'rename-inbox', '%s: INBOX is '
                                        'not empty afterwards: %r'
                                        % (what, left))
                elif cond == 'NO' and to not in model.ancestors() \
                        and to not in model.implicit \
                        and not model.may_refuse_create(to):
                    ctx.violate('C11', 'rename-refused', '%s -> %r: answered '
                                'NO %r' % (what, to, cmd.result.text),
                                sig={'source': 'INBOX' if name == 'INBOX'
                                     else 'other'})
            elif kind == 'subscribe':
                if cond == 'OK':
                    model.subscribed.add(name)
            elif kind == 'unsubscribe':
                if cond == 'OK':
                    model.subscribed.discard(name)
            elif kind in ('list', 'lsub'):
                if cond != 'OK':
                    ctx.violate('C11', 'list', '%s answered %s'
                                % (what, cond))
                else:
                    if act['pattern'] != '':
                        check_listing(ctx, model, cmd, what,
                                      act['ref'] + act['pattern'],
                                      kind == 'lsub')
            elif kind == 'status':
                if name not in model.boxes:
                    if cond == 'OK':
                        ctx.violate('C11', 'status-missing', '%s: answered '
                                    'OK' % what)
                elif cond != 'OK':
                    ctx.violate('C11', 'status-refused', '%s answered %s'
                                % (what, cond))
                else:
                    st = [r for r in cmd.untagged if r.name == b'STATUS']
                    if len(st) != 1:
                        ctx.violate('C11', 'status', '%s: %d STATUS '
                                    'responses' % (what, len(st)))
                    else:
                        data = st[0].data[1]
                        if data.get(b'MESSAGES') != len(
                                model.boxes[name]['tokens']):
                            ctx.violate('C11', 'status-count', '%s: MESSAGES '
                                        '%r, model has %d'
                                        % (what, data.get(b'MESSAGES'),
                                           len(model.boxes[name]['tokens'])))
            elif kind == 'select':
                if name not in model.boxes:
                    if cond == 'OK':
                        ctx.violate('C11', 'select-missing', '%s: answered '
                                    'OK' % what)
                elif cond != 'OK':
                    ctx.violate('C11', 'select-refused', '%s answered %s'
                                % (what, cond))
                do({'kind': 'close'})
            elif kind == 'append':
                if name not in model.boxes:
                    if cond == 'OK':
                        ctx.violate('C11', 'append-missing', '%s: answered '
                                    'OK' % what)
                elif cond == 'OK':
                    model.boxes[name]['tokens'].append(
                        act['msgs'][0]['token'])
            if kind in ('create', 'delete', 'rename') and not any(
                    v['property'] == 'C11' for v in ctx.violations):
                if not full_check(what):
                    break
        ctx.finish()
        res = ctx.result()
        res['violations'] = [v for v in res['violations']
                             if v['property'] == 'C11']
        res['nontrivial'] = effective >= 2
        res['stats']['effective_namespace_changes'] = effective
        if trace:
            res['trace'] = ctx.world.trace
        return res
    finally:
        ctx.close()


class C11(Profile):
    id = 'C11'
    BACKENDS = ('dict', 'dict', 'dict', 'maildir')
    level = 'exploration'
    quick_budget_s = 40.0
    thorough_budget_s = 400.0
    batch = 20
    rule = ('single session, programs of 5-30 namespace commands (CREATE/'
            'DELETE/RENAME/SUBSCRIBE/UNSUBSCRIBE/LIST/LSUB/STATUS/SELECT/'
            'APPEND) over hierarchical names built from 22 component shapes '
            '(wildcard characters, quote, backslash, LF, CR, &, non-ASCII, '
            'case variants of INBOX, 40 characters), 30 reference/pattern '
            'shapes, every astring spelling. Model: set of names with '
            'contents and identity, subscribed set. After every CREATE/'
            'DELETE/RENAME the whole namespace (LIST "" *) is compared with '
            'the model; RENAME keeps UIDs, tokens, UIDVALIDITY and MAILBOXID '
            'of the mailbox and its inferiors (probe dumps before/after). '
            'Names with leading, trailing or doubled delimiters are not '
            'generated (C08). Non-trivial = >= 2 effective namespace '
            'changes.')
    assumptions = C01.assumptions + [
        'LSUB: subscribed names that do not exist may be listed or not',
        'RENAME onto a name that exists only as a \\Noselect ancestor, or '
        'whose parents do not exist, may be refused',
        'LIST concatenates reference and pattern (the suite pins this)']
    components = C01.components

    def gen(self, rng, tier):
        from .common import backends, finish_cfg
        return finish_cfg(gen_ns_case(
            rng, tier, backends=backends(self.BACKENDS)), rng)

    def run(self, case, trace=False):
        return run_ns(case, trace)


PROFILE = C11()
