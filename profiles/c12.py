"""C12 - a read-only selection never changes the mailbox (differential)."""

from __future__ import annotations

import copy
import hashlib
import random

from sim.driver import Profile
from sim.engine import Ctx, make_message
from sim.shadow import canon_flag
from .c01 import C01
from .c10 import FETCHES
from .common import (USER, Tokens, flag_list, maybe_seed, pick_buggify,
                     seq_set, uid_set)

R = 0      # the read-only session
W = 1      # the read-write session that looks afterwards
OBS0 = 2   # observers


def gen_ro_case(rng: random.Random, tier: str, backends=('dict',)) -> dict:
    backend = rng.choice(backends)
    demo = backend == 'dict' and rng.random() < 0.35
    n_obs = rng.choice([0, 0, 1, 2])
    tokens = Tokens()
    cfg = {'backend': backend, 'users': [USER], 'demo_data': demo,
           'buggify': pick_buggify(rng), 'buggify_p': rng.choice([0.1, 0.3])}
    login = {'kind': 'login', 'user': USER['name'],
             'password': USER['password']}
    sessions = [R, W] + [OBS0 + i for i in range(n_obs)]
    if demo and rng.random() < 0.7:
        target, how = 'Trash', 'select'       # backend-declared read-only
    else:
        target, how = 'INBOX', 'examine'
    pre = [{'actions': [{'sess': s, 'kind': 'connect'} for s in sessions],
            'sched_seed': None},
           {'actions': [dict(login, sess=s) for s in sessions],
            'sched_seed': None},
           {'actions': [{'sess': W, 'kind': 'create', 'mailbox': 'Other'}],
            'sched_seed': None}]
    n_init = rng.randint(1, 6)
    msgs = []
    for _ in range(n_init):
        tok = tokens.take()
        m = {'data': make_message(tok), 'token': tok}
        if rng.random() < 0.7:
            m['flags'] = flag_list(rng, allow_recent=False)
        msgs.append(m)
    pre.append({'actions': [{'sess': W, 'kind': 'append', 'mailbox': 'INBOX',
                             'msgs': msgs, 'literal': 'litplus'}],
                'sched_seed': None})
    # more mail arrives that nobody has seen yet (stays \Recent in store)
    if rng.random() < 0.7:
        tok = tokens.take()
        pre.append({'actions': [{'sess': W, 'kind': 'append',
                                 'mailbox': 'INBOX', 'literal': 'litplus',
                                 'msgs': [{'data': make_message(tok),
                                           'token': tok}]}],
                    'sched_seed': None})
    # observers select the target (read-write if they can) and sync
    if n_obs:
        pre.append({'actions': [{'sess': OBS0 + i, 'kind': 'select',
                                 'mailbox': target} for i in range(n_obs)],
                    'sched_seed': None})
        pre.append({'actions': [{'sess': OBS0 + i, 'kind': 'fetch',
                                 'uid': False, 'set': '1:*',
                                 'attrs': ['UID', 'FLAGS']}
                                for i in range(n_obs)],
                    'sched_seed': None, 'obs_synced': True})
    prog = [{'actions': [{'sess': R, 'kind': how, 'mailbox': target}],
             'sched_seed': None, 'ro': True}]
    delivered = False
    hi = 104 if demo else 100 + n_init + 1
    for _ in range(rng.randint(3, 20)):
        kind = rng.choices(['store', 'expunge', 'uidexpunge', 'fetch',
                            'search', 'copy', 'move', 'append_ro', 'noop',
                            'check', 'w_into_ro', 'append_self',
                            'w_delivers'],
                           [6, 3, 2, 6, 2, 2, 3, 2, 1, 1, 2, 2, 2])[0]
        uid = rng.random() < 0.4
        the_set = uid_set(rng, 101, hi) if uid else seq_set(rng, 6)
        act = None
        if kind == 'store':
            act = {'kind': 'store', 'uid': uid, 'set': the_set,
                   'op': rng.choice(['+', '-', '']),
                   'flags': flag_list(rng) or ['\\Seen'],
                   'silent': rng.random() < 0.3}
        elif kind == 'expunge':
            act = {'kind': 'expunge'}
        elif kind == 'uidexpunge':
            act = {'kind': 'expunge', 'uid_set': uid_set(rng, 101, hi)}
        elif kind == 'fetch':
            act = {'kind': 'fetch', 'uid': uid, 'set': the_set,
                   'attrs': rng.choice(FETCHES)}
        elif kind == 'search':
            act = {'kind': 'search', 'uid': uid,
                   'keys': rng.choice(['ALL', 'UNSEEN', 'DELETED', 'RECENT',
                                       'TEXT body', 'NEW'])}
        elif kind == 'copy':
            act = {'kind': 'copy', 'uid': uid, 'set': the_set,
                   'mailbox': 'Other'}
        elif kind == 'move':
            act = {'kind': 'move', 'uid': uid, 'set': the_set,
                   'mailbox': 'Other'}
        elif kind == 'append_ro' and target == 'Trash':
            tok = tokens.take()
            act = {'kind': 'append', 'mailbox': 'Trash',
                   'literal': rng.choice(['lit', 'litplus']),
                   'msgs': [{'data': make_message(tok), 'token': tok}],
                   'into_ro': True}
        elif kind in ('noop', 'check'):
            act = {'kind': kind}
        elif kind == 'w_delivers' and target == 'INBOX':
            # a third party with nothing selected delivers into the examined
            # mailbox, in both runs: whoever is told \Recent must be the
            # same with and without the read-only selection
            tok = tokens.take()
            prog.append({'actions': [{
                'sess': W, 'kind': 'append', 'mailbox': 'INBOX',
                'literal': 'litplus',
                'msgs': [{'data': make_message(tok), 'token': tok}]}],
                'sched_seed': None})
            delivered = True
            continue
        elif kind == 'append_self' and target == 'INBOX' and n_obs == 0:
            # a delivery made from inside the read-only selection into the
            # examined mailbox; the variant without the read-only program
            # makes the same delivery from a session with nothing selected:
            # what the next read-write session sees must not differ
            tok = tokens.take()
            app = {'kind': 'append', 'mailbox': 'INBOX',
                   'literal': rng.choice(['lit', 'litplus']),
                   'msgs': [{'data': make_message(tok), 'token': tok}]}
            prog.append({'actions': [dict(app, sess=R, ro=True)],
                         'sched_seed': None, 'ro': True,
                         'alt': {'actions': [dict(app, sess=W)],
                                 'sched_seed': None}})
            continue
        elif kind == 'w_into_ro' and target == 'Trash':
            # another session (INBOX selected rw) copies/moves into Trash
            prog.append({'actions': [{'sess': W, 'kind': 'select',
                                      'mailbox': 'INBOX', 'ro': True}],
                         'sched_seed': None, 'ro': True})
            prog.append({'actions': [{
                'sess': W, 'kind': rng.choice(['copy', 'move']),
                'uid': False, 'set': seq_set(rng, 4), 'mailbox': 'Trash',
                'into_ro': True, 'ro': True}], 'sched_seed': None,
                'ro': True})
            prog.append({'actions': [{'sess': W, 'kind': 'close',
                                      'ro': True}],
                         'sched_seed': None, 'ro': True})
            continue
        if act is None:
            continue
        act['sess'] = R
        act['ro'] = True
        acts = [act]
        for i in range(n_obs):
            if rng.random() < 0.4:
                acts.append({'sess': OBS0 + i, 'kind': 'noop'})
        prog.append({'actions': acts, 'sched_seed': maybe_seed(rng, 0.4),
                     'ro': True})
    prog.append({'actions': [{'sess': R, 'kind': 'close', 'ro': True,
                              'ro_close': True}], 'sched_seed': None,
                 'ro': True})
    post = [{'actions': [{'sess': OBS0 + i, 'kind': 'noop'}
                         for i in range(n_obs)], 'sched_seed': None},
            {'actions': [{'sess': OBS0 + i, 'kind': 'fetch', 'uid': False,
                          'set': '1:*', 'attrs': ['UID', 'FLAGS']}
                         for i in range(n_obs)], 'sched_seed': None},
            {'actions': [{'sess': W, 'kind': 'select', 'mailbox': target}],
             'sched_seed': None, 'final_select': True},
            {'actions': [{'sess': W, 'kind': 'fetch', 'uid': False,
                          'set': '1:*', 'attrs': ['UID', 'FLAGS']}],
             'sched_seed': None, 'final_fetch': True}]
    return {'config': cfg, 'steps': pre + prog + post, 'target': target,
            'delivered': delivered}


def _run_variant(case: dict, with_ro: bool, trace: bool):
    ctx = Ctx(case, trace=trace)
    obs_synced = False
    result = {'final': None}
    try:
        for i, step in enumerate(case['steps']):
            if step.get('ro') and not with_ro:
                if step.get('alt'):
                    ctx.run_step(step['alt'], i)
                continue
            cmds = ctx.run_step(step, i)
            ctx.quiesce()           # a stalled lock may outlast the horizon
            if step.get('obs_synced'):
                obs_synced = True
                for cl in ctx.clients.values():
                    cl.extra_mark = len(cl.history)
            if with_ro and step.get('ro'):
                for act, cmd in zip(step['actions'], cmds):
                    if cmd is None or not act.get('ro'):
                        continue
                    check_ro_command(ctx, case, act, cmd)
            if step.get('final_select'):
                cl = ctx.clients.get(W)
                sel = dict(cl.shadow.selected or {}) if cl else {}
                result['select'] = {k: sel.get(k) for k in (
                    'exists', 'recent', 'unseen', 'uidnext', 'readonly')}
                result['select_cond'] = cmds[0].cond if cmds and cmds[0] \
                    else None
            if step.get('final_fetch'):
                cmd = cmds[0] if cmds else None
                if cmd is not None and cmd.result is not None:
                    result['final'] = sorted(
                        (r.data.get(b'UID'),
                         tuple(sorted(canon_flag(f) for f in
                                      r.data.get(b'FLAGS') or ())))
                        for r in cmd.untagged if r.name == b'FETCH')
        # (which of several read-write observers is told is the server's
        # free choice: the union is what must not depend on the read-only
        # selection)
        result['obs_recent'] = sorted({
            slot.uid for sid, cl in ctx.clients.items() if sid >= OBS0
            for sel, slot, recent, _ in cl.shadow.flag_obs
            if recent and slot.uid is not None})
        if with_ro and obs_synced and not case.get('delivered'):
            for sid, cl in ctx.clients.items():
                if sid < OBS0:
                    continue
                for cmd in cl.history[getattr(cl, 'extra_mark', 0):]:
                    if cmd.kind == 'fetch':
                        continue    # the answer to its own closing FETCH
                    for r in cmd.untagged:
                        if r.name in (b'EXISTS', b'EXPUNGE', b'FETCH'):
                            ctx.violate(
                                'C12', 'observer-notified', 'observer %d '
                                'received %s %s although only a read-only '
                                'selection was active' % (
                                    sid, r.num, r.name.decode()))
                            break
        ctx.finish()
        res = ctx.result()
        res['observed'] = result
        if trace:
            res['trace'] = ctx.world.trace
        return res
    finally:
        ctx.close()


def check_ro_command(ctx, case, act, cmd) -> None:
    kind = cmd.kind
    if cmd.result is None:
        return
    cond = cmd.cond
    ctx.stat('ro_commands')
    if kind in ('store', 'expunge') and act.get('sess') == R:
        if cond == 'OK':
            ctx.violate('C12', 'accepted', '%s answered OK inside a '
                        'read-only selection' % kind.upper(),
                        sig={'command': kind})
    elif kind == 'move' and act.get('sess') == R:
        if cond == 'OK' and any(r.name == b'EXPUNGE' or (
                r.kind == 'cond' and r.code and r.code[0] == b'COPYUID')
                for r in cmd.untagged):
            ctx.violate('C12', 'accepted', 'MOVE removed messages from a '
                        'read-only selection', sig={'command': 'move'})
    elif act.get('into_ro'):
        if cond == 'OK':
            ctx.violate('C12', 'accepted', '%s into a read-only mailbox '
                        'answered OK' % kind.upper(),
                        sig={'command': kind + '-into'})
        elif cond != 'NO':
            ctx.stat('into_ro_not_no')
    elif act.get('ro_close'):
        if cond != 'OK' and cmd.kind == 'close':
            cl = ctx.clients.get(R)
            if cl is not None and cl.shadow.selected is not None:
                ctx.violate('C12', 'close-refused', 'CLOSE of a read-only '
                            'selection answered %s %r'
                            % (cond, cmd.result.text))


class C12(Profile):
    id = 'C12'
    BACKENDS = ('dict', 'dict', 'dict', 'maildir')
    level = 'exploration'
    quick_budget_s = 40.0
    thorough_budget_s = 420.0
    batch = 15
    rule = ('differential pair per case: run A = set-up (1-6 messages with '
            'flags, optionally unseen mail still \\Recent in the store), '
            'session R EXAMINEs INBOX (or SELECTs the backend-declared '
            'read-only demo mailbox Trash) and runs 3-20 random message '
            'commands (STORE/EXPUNGE/UID EXPUNGE/FETCH with \\Seen-setting '
            'attributes/SEARCH/COPY/MOVE/APPEND into the read-only mailbox, '
            'plus another session copying/moving into it; without observers '
            'also APPEND into the examined mailbox itself, which run B '
            'performs from a session with nothing selected; and deliveries '
            'by a third session into the examined mailbox, made in both '
            'runs), CLOSE; then a '
            'read-write session SELECTs and FETCHes 1:* (UID FLAGS). Run B = '
            'the same case without R. Oracle: the final SELECT counts '
            '(EXISTS/RECENT/UNSEEN/UIDNEXT) and per-message flags incl. '
            '\\Recent are identical, and so is the set of UIDs the read-write '
            'observers together were shown \\Recent; in run A the mutating commands answered '
            'NO, CLOSE answered OK, 0-2 observers got no EXISTS/EXPUNGE/'
            'FETCH. Non-trivial = R issued >= 3 commands.')
    assumptions = C01.assumptions + [
        'determinism of the simulator is what makes run A and run B '
        'comparable (checked by the digest re-run in quick tier)']
    components = C01.components

    def gen(self, rng, tier):
        from .common import backends, finish_cfg
        return finish_cfg(gen_ro_case(
            rng, tier, backends=backends(self.BACKENDS)), rng)

    def run(self, case, trace=False):
        a = _run_variant(case, True, trace)
        b = _run_variant(case, False, False)
        viol = [v for v in a['violations'] if v['property'] == 'C12']
        oa, ob = a['observed'], b['observed']
        if not viol and oa != ob:
            for key in ('select_cond', 'select', 'final', 'obs_recent'):
                if oa.get(key) != ob.get(key):
                    from sim.engine import Violation
                    viol.append(Violation(
                        property='C12', clause='differs.' + key,
                        detail='next read-write session sees %r after the '
                        'read-only program, %r without it'
                        % (oa.get(key), ob.get(key)),
                        sig={'backend': case['config']['backend']},
                        step=len(case['steps']), seq=0))
                    break
        a['violations'] = viol
        a['digest'] = hashlib.sha256(
            (a['digest'] + b['digest']).encode()).hexdigest()
        a['nontrivial'] = a['stats'].get('ro_commands', 0) >= 3
        return a


PROFILE = C12()
