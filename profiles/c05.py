"""C05 - connection state machine follows RFC 3501 section 3."""

from __future__ import annotations

import base64
import itertools
import random

from sim.driver import Profile
from sim.engine import Ctx, make_message, token_of
from .c01 import C01
from .common import USER

GOOD = ('user', 'pass')
TOKEN_ATTR = 'BODY.PEEK[HEADER.FIELDS (X-Token)]'


def plain(authzid: str, user: str, password: str) -> str:
    raw = ('%s\0%s\0%s' % (authzid, user, password)).encode()
    return base64.b64encode(raw).decode()


def _msg(tok):
    return {'data': make_message(tok), 'token': tok}


# letter -> (class, actions).  class: any | nonauth | auth | select
LETTERS = {
    'capability': ('any', [{'kind': 'capability'}]),
    'noop': ('any', [{'kind': 'noop'}]),
    'id': ('any', [{'kind': 'id', 'params': [['name', 'sim']]}]),
    'logout': ('any', [{'kind': 'logout'}]),
    'login_good': ('nonauth', [{'kind': 'login', 'user': 'user',
                                'password': 'pass'}]),
    'login_bad': ('nonauth', [{'kind': 'login', 'user': 'user',
                               'password': 'wrong'}]),
    'auth_good': ('nonauth', [{'kind': 'authenticate', 'mech': 'PLAIN',
                               'responses': [plain('', 'user', 'pass')]}]),
    'auth_bad': ('nonauth', [{'kind': 'authenticate', 'mech': 'PLAIN',
                              'responses': [plain('', 'user', 'nope')]}]),
    'auth_cancel': ('nonauth', [{'kind': 'authenticate', 'mech': 'PLAIN',
                                 'responses': ['*']}]),
    'starttls': ('nonauth', [{'kind': 'starttls'}]),
    'select_inbox': ('auth', [{'kind': 'select', 'mailbox': 'INBOX'}]),
    'select_other': ('auth', [{'kind': 'select', 'mailbox': 'Other'}]),
    'select_missing': ('auth', [{'kind': 'select', 'mailbox': 'Missing'}]),
    'examine_inbox': ('auth', [{'kind': 'examine', 'mailbox': 'INBOX'}]),
    'examine_missing': ('auth', [{'kind': 'examine', 'mailbox': 'Nope'}]),
    'create_new': ('auth', [{'kind': 'create', 'mailbox': 'New'}]),
    'create_existing': ('auth', [{'kind': 'create', 'mailbox': 'Other'}]),
    'delete_missing': ('auth', [{'kind': 'delete', 'mailbox': 'Missing'}]),
    'rename_missing': ('auth', [{'kind': 'rename', 'mailbox': 'Missing',
                                 'to': 'Elsewhere'}]),
    'subscribe': ('auth', [{'kind': 'subscribe', 'mailbox': 'Other'}]),
    'unsubscribe': ('auth', [{'kind': 'unsubscribe', 'mailbox': 'Other'}]),
    'list': ('auth', [{'kind': 'list', 'ref': '', 'pattern': '*'}]),
    'lsub': ('auth', [{'kind': 'lsub', 'ref': '', 'pattern': '*'}]),
    'status': ('auth', [{'kind': 'status', 'mailbox': 'INBOX'}]),
    'status_missing': ('auth', [{'kind': 'status', 'mailbox': 'Missing'}]),
    'append': ('auth', [{'kind': 'append', 'mailbox': 'INBOX',
                         'msgs': [_msg(50)], 'literal': 'lit'}]),
    'append_missing': ('auth', [{'kind': 'append', 'mailbox': 'Missing',
                                 'msgs': [_msg(51)], 'literal': 'litplus'}]),
    'check': ('select', [{'kind': 'check'}]),
    'close': ('select', [{'kind': 'close'}]),
    'expunge': ('select', [{'kind': 'expunge'}]),
    'search': ('select', [{'kind': 'search', 'keys': 'ALL'}]),
    'fetch': ('select', [{'kind': 'fetch', 'set': '1', 'attrs': ['FLAGS']}]),
    'uid_fetch': ('select', [{'kind': 'fetch', 'uid': True, 'set': '1:*',
                              'attrs': ['BODY[]']}]),
    'store': ('select', [{'kind': 'store', 'set': '1', 'op': '+',
                          'flags': ['\\Deleted']}]),
    'copy': ('select', [{'kind': 'copy', 'set': '1', 'mailbox': 'Other'}]),
    'copy_missing': ('select', [{'kind': 'copy', 'set': '1',
                                 'mailbox': 'Missing'}]),
    'move': ('select', [{'kind': 'move', 'set': '1', 'mailbox': 'Other'}]),
    'idle': ('select', [{'kind': 'idle'}, {'kind': 'done'}]),
    # IDLE ended by something that is not DONE: answered BAD, still selected
    'idle_garbage': ('select', [{'kind': 'idle'},
                                {'kind': 'done', 'line': 'NOOP'}]),
    # DONE and the next command in one burst (a list = one step): whatever
    # IDLE still has running must not outlive it
    'idle_pipe_close': ('select', [{'kind': 'idle'}, [
        {'kind': 'done'}, {'kind': 'close', 'pipeline': True}]]),
    'idle_pipe_select_other': ('select', [{'kind': 'idle'}, [
        {'kind': 'done'},
        {'kind': 'select', 'mailbox': 'Other', 'pipeline': True}]]),
    'idle_pipe_select_missing': ('select', [{'kind': 'idle'}, [
        {'kind': 'done'},
        {'kind': 'select', 'mailbox': 'Missing', 'pipeline': True}]]),
}
# letters judged like another letter (their last command is that letter's)
ALIAS = {'idle_pipe_close': 'close',
         'idle_pipe_select_other': 'select_other',
         'idle_pipe_select_missing': 'select_missing'}
# the IDLE variants are enumerated in their own families below and drawn in
# random programs; the exhaustive products run over the plain letters
SPECIAL = ['idle_garbage'] + list(ALIAS)
NAMES = [n for n in LETTERS if n not in SPECIAL]
# interference: another session of the same user changes the namespace under
# the session being examined (class 'ext', never gated, run by session 8)
EXT = {
    'ext_delete_other': [{'kind': 'delete', 'mailbox': 'Other'}],
    'ext_rename_other': [{'kind': 'rename', 'mailbox': 'Other',
                          'to': 'Moved'}],
    'ext_create_other': [{'kind': 'create', 'mailbox': 'Other'}],
    'ext_append_inbox': [{'kind': 'append', 'mailbox': 'INBOX',
                          'msgs': [_msg(60)], 'literal': 'litplus'}],
}
for _name, _acts in EXT.items():
    LETTERS[_name] = ('ext', _acts)
STARTS = {'nonauth': [],
          'auth': ['login_good'],
          'selected': ['login_good', 'select_inbox'],
          'examined': ['login_good', 'examine_inbox'],
          'selected_other': ['login_good', 'select_other']}


def make_case(start: str, program: list[str], tls: bool = False,
              chunk_seed=None, backend: str = 'dict') -> dict:
    cfg = {'backend': backend, 'users': [USER], 'tls': tls,
           'bad_command_limit': 0, 'buggify': []}
    if backend == 'maildir':
        cfg['layout'] = '++' if (chunk_seed or 0) % 2 else 'fs'
    steps = [{'letter': name, 'pre': True} for name in STARTS[start]]
    steps += [{'letter': name} for name in program]
    case = {'config': cfg, 'steps': steps, 'start': start}
    if chunk_seed is not None:
        case['chunk_seed'] = chunk_seed
    return case


class StateModel:

    def __init__(self, tls: bool) -> None:
        self.state = 'nonauth'       # nonauth | auth | selected | logout
        self.mailbox = None
        self.readonly = False
        self.tls_pending = tls       # credentials refused until STARTTLS
        self.starttls_offered = tls
        self.boxes = {'INBOX', 'Other'}
        # the selected mailbox was deleted or renamed by someone else: the
        # statement does not say whether the session is still selected, only
        # that CLOSE succeeds and that SELECT/EXAMINE behave as always
        self.dangling = False

    def allowed(self, cls: str) -> bool:
        if self.state == 'logout':
            return False
        if cls in ('any', 'ext'):
            return True
        if cls == 'nonauth':
            return self.state == 'nonauth'
        if cls == 'auth':
            return self.state in ('auth', 'selected')
        return self.state == 'selected'

    def snapshot(self):
        return (self.state, self.mailbox)


def dump_all(ctx: Ctx, boxes) -> dict:
    out = {}
    for name in sorted(set(boxes) | {'New', 'Missing', 'Elsewhere', 'Moved',
                                     'Other'}):
        d = ctx.probe(name, extra_attrs=())
        if d is None:
            out[name] = None
        else:
            out[name] = [(u, tuple(sorted(r['flags'])), r['size'])
                         for u, r in sorted(d['msgs'].items())]
    return out


def box_tokens(ctx: Ctx, name: str) -> set | None:
    d = ctx.probe(name, body=True)
    if d is None:
        return None
    return {token_of(bytes(r['body'] or b'')) for r in d['msgs'].values()}


def run_program(case: dict, trace: bool = False) -> dict:
    ctx = Ctx(case, trace=trace)
    tls = bool(case['config'].get('tls'))
    model = StateModel(tls)
    chunk = random.Random(case['chunk_seed']) \
        if case.get('chunk_seed') is not None else None
    try:
        # set-up through an admin-less second connection: mailboxes + mail
        ctx.run_step({'actions': [{'sess': 9, 'kind': 'connect',
                                   'peer': '127.0.0.1'}]}, -1)
        setup = [{'kind': 'login', 'user': 'user', 'password': 'pass'},
                 {'kind': 'create', 'mailbox': 'Other'},
                 {'kind': 'append', 'mailbox': 'INBOX', 'literal': 'litplus',
                  'msgs': [_msg(1), _msg(2), _msg(3)]},
                 {'kind': 'append', 'mailbox': 'Other', 'literal': 'litplus',
                  'msgs': [_msg(4)]},
                 {'kind': 'logout'}]
        for act in setup:
            ctx.run_step({'actions': [dict(act, sess=9)]}, -1)
        if any(LETTERS[st['letter']][0] == 'ext' for st in case['steps']):
            ctx.run_step({'actions': [{'sess': 8, 'kind': 'connect',
                                       'peer': '127.0.0.1'}]}, -1)
            ctx.run_step({'actions': [{'sess': 8, 'kind': 'login',
                                       'user': 'user',
                                       'password': 'pass'}]}, -1)
        ctx.run_step({'actions': [{'sess': 0, 'kind': 'connect'}]}, -1)
        cl = ctx.clients[0]

        def do(action: dict):
            act = dict(action, sess=0)
            if chunk is not None and chunk.random() < 0.5:
                act['chunk_seed'] = chunk.getrandbits(32)
            cmds = ctx.run_step({'actions': [act]}, ctx.step_index)
            return cmds[0]

        def reveal():
            """(authenticated?, selected?, tokens of the selected mailbox)"""
            if cl.conn.done:
                return ('closed', None, None)
            r1 = do({'kind': 'list', 'ref': '', 'pattern': ''})
            r2 = do({'kind': 'check'})
            toks = None
            if r2 is not None and r2.ok:
                r3 = do({'kind': 'fetch', 'uid': True, 'set': '1:*',
                         'attrs': ['BODY.PEEK[]']})
                toks = {token_of(bytes(r.data.get(b'BODY[]') or b''))
                        for r in r3.untagged if r.name == b'FETCH'}
            return (bool(r1 is not None and r1.ok),
                    bool(r2 is not None and r2.ok), toks)

        for i, step in enumerate(case['steps']):
            ctx.step_index = i
            name = step['letter']
            cls, actions = LETTERS[name]
            if cl.conn.done:
                break
            if cls == 'ext':
                for act in actions:
                    c = ctx.run_step({'actions': [dict(act, sess=8)]}, i)[0]
                    ctx.clients[8].pending.clear()
                ctx.stat('interference')
                if c is not None and c.ok:
                    if name in ('ext_delete_other', 'ext_rename_other'):
                        model.boxes.discard('Other')
                        if name == 'ext_rename_other':
                            model.boxes.add('Moved')
                        if model.mailbox == 'Other':
                            model.dangling = True
                    elif name == 'ext_create_other':
                        model.boxes.add('Other')
                continue
            before_state = model.snapshot()
            allowed = model.allowed(cls)
            before_dump = dump_all(ctx, model.boxes) if not allowed else None
            before_reveal = reveal() if not allowed else None
            cmd = None
            if name in ALIAS and not allowed:
                # nothing is idling here: plain IDLE + DONE, both refused
                actions = LETTERS['idle'][1]
            for act in actions:
                if isinstance(act, list):
                    cs = ctx.run_step({'actions': [dict(a, sess=0)
                                                   for a in act]},
                                      ctx.step_index)
                    cmd = cs[-1]
                    continue
                c = do(act)
                if act['kind'] != 'done':
                    cmd = c
            if cmd is None:
                continue
            if name in ALIAS and allowed:
                # the pipelined command is the one being judged
                ctx.settle(1.0)
                name = ALIAS[name]
                actions = LETTERS[name][1]
            ctx.stat('letters')
            cond = cmd.cond
            if model.dangling and name != 'logout' and (
                    cl.conn.done or cl.conn.server_closed) and any(
                        r.name == b'BYE' for r in cmd.untagged):
                # the server's way out: "* BYE Selected mailbox no longer
                # exists." and disconnect (RFC 3501 7.1.5 allows a BYE at
                # any time); nothing more to observe on this connection
                ctx.stat('bye_after_mailbox_removed')
                break
            what = 'step %d %s in state %s' % (i, name, before_state)
            if cond is None and not cl.conn.done:
                ctx.violate('C05', 'unanswered', '%s: no tagged reply'
                            % what, sig={'letter': name})
                break
            if not allowed:
                ctx.stat('refusals_expected')
                if cond == 'OK':
                    ctx.violate('C05', 'gate', '%s: accepted with OK, must be '
                                'refused' % what, sig={'letter': name})
                    break
                after_reveal = reveal()
                if after_reveal != before_reveal:
                    ctx.violate('C05', 'refused-changed-state', '%s: refused '
                                'but revealed state went %r -> %r'
                                % (what, before_reveal, after_reveal),
                                sig={'letter': name})
                    break
                if dump_all(ctx, model.boxes) != before_dump:
                    ctx.violate('C05', 'refused-changed-data', '%s: refused '
                                'but mailbox contents changed' % what,
                                sig={'letter': name})
                    break
                continue
            # allowed in this state: letter-specific transition
            creds_ok = not model.tls_pending
            if name in ('login_good', 'auth_good'):
                if creds_ok:
                    if cond != 'OK':
                        ctx.violate('C05', 'login', '%s: valid credentials '
                                    'answered %s' % (what, cond),
                                    sig={'letter': name})
                        break
                    model.state = 'auth'
                elif cond == 'OK':
                    ctx.violate('C05', 'login', '%s: accepted before '
                                'STARTTLS' % what, sig={'letter': name})
                    break
            elif name in ('login_bad', 'auth_bad', 'auth_cancel'):
                if cond == 'OK':
                    ctx.violate('C05', 'login', '%s: answered OK' % what,
                                sig={'letter': name})
                    break
            elif name == 'starttls':
                if model.starttls_offered:
                    if cond != 'OK':
                        ctx.violate('C05', 'starttls', '%s: offered but '
                                    'answered %s' % (what, cond),
                                    sig={'letter': name})
                        break
                    model.starttls_offered = False
                    model.tls_pending = False
                elif cond == 'OK':
                    ctx.violate('C05', 'starttls', '%s: not offered but '
                                'answered OK' % what, sig={'letter': name})
                    break
            elif name.startswith('select_') or name.startswith('examine_'):
                target = actions[0]['mailbox']
                if target in model.boxes:
                    if cond != 'OK':
                        ctx.violate('C05', 'select', '%s: existing mailbox '
                                    'answered %s' % (what, cond),
                                    sig={'letter': name})
                        break
                    model.state = 'selected'
                    model.mailbox = target
                    model.readonly = name.startswith('examine')
                    model.dangling = False
                else:
                    if cond == 'OK':
                        ctx.violate('C05', 'select', '%s: missing mailbox '
                                    'answered OK' % what, sig={'letter': name})
                        break
                    model.state = 'auth'
                    model.mailbox = None
                    model.dangling = False
            elif name == 'close':
                if cond != 'OK':
                    ctx.violate('C05', 'close', '%s: CLOSE answered %s%s'
                                % (what, cond, ' (the selected mailbox was '
                                   'removed by another session)'
                                   if model.dangling else ''),
                                sig={'letter': name,
                                     'dangling': model.dangling})
                    break
                model.state = 'auth'
                model.mailbox = None
                model.dangling = False
            elif name == 'logout':
                byes = [r for r in cmd.untagged if r.name == b'BYE']
                if cond != 'OK' or not byes:
                    ctx.violate('C05', 'logout', '%s: LOGOUT gave BYE=%d, '
                                'tagged %s' % (what, len(byes), cond),
                                sig={'letter': name})
                    break
                ctx.settle()
                if not cl.conn.server_closed:
                    ctx.violate('C05', 'logout', '%s: stream still open '
                                'after LOGOUT' % what, sig={'letter': name})
                    break
                model.state = 'logout'
                break
            elif name in ('create_new', 'create_existing') and cond == 'OK':
                # ("existing" may have been deleted by the other session)
                model.boxes.add(actions[0]['mailbox'])
            # the revealed state must be the model's
            auth, sel, toks = reveal()
            want_auth = model.state in ('auth', 'selected')
            want_sel = model.state == 'selected'
            if model.dangling:
                sel = want_sel      # either answer of CHECK is acceptable
            if auth != want_auth or sel != want_sel:
                ctx.violate('C05', 'state', '%s answered %s: revealed '
                            'authenticated=%s selected=%s, model says %s'
                            % (what, cond, auth, sel, model.snapshot()),
                            sig={'letter': name})
                break
            if want_sel and not model.dangling:
                actual = box_tokens(ctx, model.mailbox)
                if toks != actual:
                    ctx.violate('C05', 'which-mailbox', '%s: session sees '
                                'tokens %s but %s holds %s'
                                % (what, sorted(toks or ()), model.mailbox,
                                   sorted(actual or ())),
                                sig={'letter': name})
                    break
        ctx.finish()
        res = ctx.result()
        res['violations'] = [v for v in res['violations']
                             if v['property'] == 'C05']
        res['nontrivial'] = sum(1 for s in case['steps']
                                if not s.get('pre')) >= 2
        if trace:
            res['trace'] = ctx.world.trace
        return res
    finally:
        ctx.close()


class C05(Profile):
    id = 'C05'
    level = 'exploration'
    quick_budget_s = 50.0
    thorough_budget_s = 420.0
    batch = 40
    rule = ('alphabet of %d letters (every built-in command once with valid '
            'arguments, the state-relevant ones also with a missing mailbox '
            '/ bad password / cancel / read-only target). Quick: ALL '
            'programs of length <= 2 from each of 5 start states (not '
            'authenticated, authenticated, selected INBOX / Other, '
            'examined), and with TLS required from the first two '
            '(exhaustive; thorough: TLS from all five, plus ALL programs of '
            'length 3 from the not-authenticated state); beyond that, to '
            'the end of the budget, seeded random programs of length 4-12 '
            'with random input chunking, a quarter of them on maildir. '
            'After every letter three effect-free probes (LIST "" "", CHECK, '
            'UID FETCH 1:*) reveal the real state and a refused letter must '
            'leave state and all mailbox dumps unchanged. Interference: a '
            'second session of the same user deletes / renames / re-creates '
            'the selected mailbox or appends (4 ext letters); quick runs '
            '[ext, every letter, CLOSE] and [ext, re-create, every letter] '
            'from two selected start states, random programs insert 1-3 ext '
            'letters in 40%% of the cases; after the selected mailbox has '
            'gone either answer of the CHECK probe is accepted, CLOSE must '
            'still answer OK and deselect. Non-trivial = '
            'program of >= 2 letters after the start prefix.' % len(NAMES))
    assumptions = C01.assumptions + [
        'bad_command_limit is disabled for this profile so that the reveal '
        'probes (which are refused with BAD in early states) do not '
        'disconnect the session']
    components = C01.components

    def enumerate(self, tier):
        for tls in (False, True):
            for start in STARTS:
                if tls and tier == 'quick' and start not in ('nonauth',
                                                             'auth'):
                    # the TLS requirement gates credentials; quick keeps
                    # the selected start states for the plain listener
                    continue
                for name in NAMES:
                    yield make_case(start, [name], tls)
                for a, b in itertools.product(NAMES, NAMES):
                    yield make_case(start, [a, b], tls)
        # interference: the selected mailbox disappears, then every letter,
        # then CLOSE
        for ext in ('ext_delete_other', 'ext_rename_other'):
            for start in ('selected_other', 'selected'):
                for name in NAMES:
                    yield make_case(start, [ext, name, 'close'], False)
                    yield make_case(start, [ext, 'ext_create_other', name],
                                    False)
        # a refused IDLE, a change of selection, a change of the mailbox
        # that was idled on by someone else, then every letter
        # DONE pipelined with a change of selection, a foreign change of the
        # mailbox that was idled on, then every letter
        for start in ('selected', 'examined'):
            for piped in ALIAS:
                for name in NAMES:
                    yield make_case(start, [piped, 'ext_append_inbox', name],
                                    False)
        for start in ('selected', 'examined'):
            for mover in ('close', 'select_other', 'examine_inbox',
                          'select_missing'):
                for name in NAMES:
                    yield make_case(start, ['idle_garbage', mover,
                                            'ext_append_inbox', name], False)
        if tier == 'thorough':
            for prog in itertools.product(NAMES, NAMES, NAMES):
                yield make_case('nonauth', list(prog), False)

    def gen(self, rng, tier):
        start = rng.choice(list(STARTS))
        n = rng.randint(4, 12)
        # bias towards letters that move between states
        movers = ['login_good', 'select_inbox', 'select_other', 'close',
                  'examine_inbox', 'select_missing', 'auth_good', 'logout']
        prog = [rng.choice(movers) if rng.random() < 0.35
                else rng.choice(NAMES + SPECIAL) for _ in range(n)]
        if rng.random() < 0.4:
            for _ in range(rng.randint(1, 3)):
                prog.insert(rng.randrange(len(prog) + 1),
                            rng.choice(list(EXT)))
        from .common import backends
        return make_case(start, prog, rng.random() < 0.3,
                         rng.getrandbits(32),
                         rng.choice(backends(('dict', 'dict', 'dict',
                                              'maildir'))))

    def run(self, case, trace=False):
        return run_program(case, trace)


PROFILE = C05()
