"""C06 - every input is answered: no hang, no internal error, no silent drop."""

from __future__ import annotations

import random

from sim.driver import Profile
from sim.engine import Ctx, make_message
from sim.client import s
from .c01 import C01
from .common import USER

# charset names a SEARCH may carry: text codecs, the runtime's non-text
# codecs and aliases, stateful and odd ones
CODECS = [b'hex', b'hex_codec', b'base64', b'base_64', b'rot13', b'rot-13',
          b'zlib', b'zip', b'bz2', b'uu', b'quopri', b'quoted-printable',
          b'idna', b'punycode', b'unicode_escape', b'unicode-escape',
          b'raw_unicode_escape', b'utf-16', b'UTF-16LE', b'utf-32', b'utf-7',
          b'UTF7', b'utf-8-sig', b'UTF8', b'ascii', b'646', b'cp037',
          b'cp500', b'undefined', b'mbcs', b'oem', b'big5', b'shift_jis',
          b'iso-2022-jp', b'hz', b'charmap', b'palmos', b'string_escape',
          b'latin_1', b'iso8859-15', b'koi8-r', b'mac-roman', b'ptcp154',
          b'utf_8_sig', b'UTF-8 ', b'utf\x00', b'x' * 300, b'..', b'a/b',
          b'os', b'encodings', b'__init__', b'aliases']



SEARCH_KEYS = [
    'ALL', 'ANSWERED', 'DELETED', 'FLAGGED', 'NEW', 'OLD', 'RECENT', 'SEEN',
    'UNANSWERED', 'UNDELETED', 'UNFLAGGED', 'UNSEEN', 'DRAFT', 'UNDRAFT',
    'BCC x', 'BODY x', 'CC x', 'FROM x', 'SUBJECT x', 'TEXT x', 'TO x',
    'BEFORE 1-Jan-2030', 'ON 15-Jan-2024', 'SINCE 1-Jan-2000',
    'SENTBEFORE 1-Jan-2030', 'SENTON 15-Jan-2024', 'SENTSINCE 1-Jan-2000',
    'KEYWORD foo', 'UNKEYWORD foo', 'LARGER 10', 'SMALLER 100000',
    'UID 1:*', 'HEADER Subject x', 'HEADER X-None ""', 'OR SEEN DELETED',
    'NOT SEEN', '1:*', '(SEEN FLAGGED)', 'OR (FROM a TO b) NOT (CC c)']
FETCH_ATTRS = [
    'FLAGS', 'UID', 'INTERNALDATE', 'RFC822.SIZE', 'ENVELOPE', 'BODY',
    'BODYSTRUCTURE', 'RFC822', 'RFC822.HEADER', 'RFC822.TEXT', 'BODY[]',
    'BODY.PEEK[]', 'BODY[HEADER]', 'BODY[TEXT]', 'BODY[1]', 'BODY[1.1]',
    'BODY[2]', 'BODY[1.MIME]', 'BODY[1.HEADER]', 'BODY[1.TEXT]',
    'BODY[HEADER.FIELDS (SUBJECT DATE FROM)]',
    'BODY[HEADER.FIELDS.NOT (SUBJECT)]', 'BODY[]<0.10>', 'BODY[]<5.100000>',
    'BINARY[]', 'BINARY[1]', 'BINARY.PEEK[1]', 'BINARY.SIZE[]',
    'BINARY.SIZE[1]', 'EMAILID', 'THREADID', 'ALL', 'FULL', 'FAST',
    '(FLAGS ENVELOPE BODYSTRUCTURE RFC822.SIZE)']

MAILBOXES = [b'INBOX', b'Other', b'inbox', b'"Other"', b'Missing', b'""',
             b'a&b', b'&abc', b'&-', b'&AOk-', b'&AOk', b'&&&', b'"a b"',
             b'"a\\"b"', b'x/y', b'x/', b'/', b'%', b'*', b'"&"',
             b'\xc3\xa9', b'"\xe9"', b'{3+}\r\nabc', b'{0+}\r\n', b'~peter',
             b'#news', b'&AAA-', b'&,,,-', b'&Jjo!', b'"&Jjo"',
             b'a' * 300, b'&' + b'A' * 200 + b'-',
             # text that looks like a literal marker but is not one
             b'"{64+}"', b'"{4096+}"', b'"x {9+}"', b'"{7}"',
             b'"{999999999+}"', b'"{2+}\\r\\n"', b'{3+}\r\nabc',
             b'{5+}\r\n{9+} ']
SETS = [b'1', b'1:*', b'*', b'2:1', b'1,2,3', b'*:*', b'0', b'1:0', b'4294967295',
        b'4294967296', b'99999999999999999999', b'1:', b':1', b'1,,2', b'$',
        b'1:*,1:*,1:*', b'-1', b'1.5', b'*:4294967295', b'1:*:2']
FLAGSETS = [b'()', b'(\\Seen)', b'(\\Seen \\Deleted)', b'(\\Recent)',
            b'(\\*)', b'(foo)', b'(\\Foo)', b'(\\)', b'\\Seen', b'((\\Seen))',
            b'(\\Seen  \\Deleted)', b'(\xc3\xa9)', b'(\\Seen', b'NIL']
DATES = [b'"15-Jan-2024 10:00:00 +0000"', b'" 1-Jan-2024 00:00:00 -0800"',
         b'"32-Jan-2024 10:00:00 +0000"', b'"15-Foo-2024 10:00:00 +0000"',
         b'"15-Jan-2024 25:00:00 +0000"', b'"15-Jan-2024 10:00:00 +9999"',
         b'"15-Jan-99999 10:00:00 +0000"', b'""', b'"x"',
         b'"15-Jan-0000 10:00:00 +0000"', b'"29-Feb-2023 10:00:00 +0000"',
         b'" 1-Jan-0999 00:00:00 +0000"', b'"01-Jan-0001 00:00:00 +0000"',
         b'"31-Dec-9999 23:59:59 +1400"', b'"01-Jan-1970 00:00:00 +0000"',
         b'"31-Dec-1969 23:59:59 -1200"', b'"19-Jan-2038 03:14:08 +0000"',
         b'"01-Jan-0001 00:00:00 +1400"', b'"31-Dec-9999 23:59:59 -1200"']
SPECIAL = [b'(', b')', b'{', b'}', b'[', b']', b'"', b'\\', b' ', b'\r',
           b'\n', b'&', b'*', b'%', b'~', b'+', b'\x00', b'\xff', b'\xe9',
           b'{5}', b'{5+}', b'NIL', b'  ', b'\t', b'<', b'>', b'.', b',', b':']


def _astr(rng, pool):
    v = rng.choice(pool)
    return v


def gen_command(rng: random.Random, state: str) -> bytes:
    """One grammar-derived command line body (no tag, no CRLF)."""
    mb = lambda: rng.choice(MAILBOXES)
    st = lambda: rng.choice(SETS)
    any_cmds = [
        lambda: b'CAPABILITY', lambda: b'NOOP',
        lambda: b'ID NIL', lambda: b'ID ("name" "x" "version" NIL)',
        lambda: b'ID (' + b' '.join(b'"k%d" "v"' % i
                                    for i in range(rng.randint(0, 40))) + b')',
        lambda: b'ID ("a")', lambda: b'ID ("' + b'k' * 40 + b'" "v")']
    nonauth = [
        lambda: b'LOGIN ' + rng.choice([b'user', b'"user"', b'{4+}\r\nuser',
                                        b'nobody', b'\xff', b'""',
                                        b'"{64+}"', b'"{9+}"']) + b' ' +
        rng.choice([b'pass', b'"pass"', b'wrong', b'""', b'{0+}\r\n',
                    b'{4+}\r\npass',
                    b'\xc3\xa9', b'"' + b'p' * 60000 + b'"']),
        lambda: b'AUTHENTICATE ' + rng.choice([b'PLAIN', b'LOGIN', b'NOPE',
                                               b'plain', b'X' * 100]),
        lambda: b'STARTTLS']
    auth = [
        lambda: b'SELECT ' + mb(), lambda: b'EXAMINE ' + mb(),
        lambda: b'CREATE ' + mb(), lambda: b'DELETE ' + mb(),
        lambda: b'RENAME ' + mb() + b' ' + mb(),
        lambda: b'SUBSCRIBE ' + mb(), lambda: b'UNSUBSCRIBE ' + mb(),
        lambda: b'LIST ' + mb() + b' ' + mb(),
        lambda: b'LSUB ' + mb() + b' ' + mb(),
        lambda: b'LIST "" ' + rng.choice([b'*', b'%', b'*%*%*%*', b'"%/%"',
                                          b'&', b'"&abc"', b'%' * 500]),
        lambda: b'STATUS ' + mb() + b' ' + rng.choice(
            [b'(MESSAGES)', b'(MESSAGES RECENT UIDNEXT UIDVALIDITY UNSEEN)',
             b'()', b'(FOO)', b'MESSAGES', b'(MESSAGES MESSAGES)',
             b'(MAILBOXID)', b'(MESSAGES', b'(SIZE DELETED)']),
        lambda: b'APPEND ' + mb() + b' ' +
        (rng.choice(FLAGSETS) + b' ' if rng.random() < 0.5 else b'') +
        (rng.choice(DATES) + b' ' if rng.random() < 0.4 else b'') +
        rng.choice([b'{5+}\r\nhello', b'{0+}\r\n', b'~{3+}\r\n\x00\x01\x02',
                    b'{11+}\r\nSubject: x\r', b'{2000000000+}\r\n',
                    b'{99999999999999999999+}\r\n', b'"quoted"', b'NIL',
                    b'{5+}\r\nhello {5+}\r\nworld',
                    b'{5+}\r\nhello (\\Seen) {5+}\r\nworld']),
    ]
    select = [
        lambda: b'CHECK', lambda: b'CLOSE', lambda: b'EXPUNGE',
        lambda: b'UID EXPUNGE ' + st(),
        lambda: rng.choice([b'', b'UID ']) + b'SEARCH ' +
        (b'CHARSET ' + rng.choice([b'UTF-8', b'US-ASCII', b'X-FOO', b'""',
                                   b'utf-8', b'latin-1'] + CODECS) + b' '
         if rng.random() < 0.3 else b'') +
        b' '.join(rng.choice(SEARCH_KEYS).encode()
                  for _ in range(rng.randint(1, 4))),
        lambda: rng.choice([b'', b'UID ']) + b'SEARCH ' + rng.choice([
            b'HEADER', b'OR SEEN', b'NOT', b'()', b'(((((ALL)))))',
            b'BEFORE 99-Jan-2024', b'ON "15-Jan-2024"', b'LARGER -1',
            b'LARGER 99999999999999999999999', b'KEYWORD \\Seen',
            b'SUBJECT {3+}\r\nabc', b'SUBJECT "\xe9"', b'TEXT \xff',
            b'CHARSET UTF-8 SUBJECT \xc3\xa9', b'FROM ""',
            b'EMAILID M123', b'THREADID T1', b'EMAILID (x)', b'UID ' + st(),
            b'SENTON 1-Jan-1', b'SINCE 1-Jan-10000', b'OR OR OR A B C D',
            b'NOT NOT NOT NOT SEEN', b'MODSEQ 5', b'X-FOO']),
        # every codec name the runtime knows (text or not) with a string key
        lambda: rng.choice([b'', b'UID ']) + b'SEARCH CHARSET ' +
        rng.choice(CODECS) + b' ' + rng.choice([
            b'SUBJECT abc', b'TEXT "a b"', b'BODY {3+}\r\nabc', b'FROM \xe9',
            b'HEADER X-Token \xff\xfe', b'OR TO a CC "\xc3\xa9"',
            b'NOT BCC {2+}\r\n\xc3\xa9', b'ALL', b'SUBJECT ""',
            b'SUBJECT +ZeVnLIqe-', b'TEXT =C3=A9', b'TEXT 68656c6c6f']),
        lambda: rng.choice([b'', b'UID ']) + b'FETCH ' + st() + b' ' +
        rng.choice(FETCH_ATTRS).encode(),
        lambda: rng.choice([b'', b'UID ']) + b'FETCH ' + st() + b' ' +
        rng.choice([b'BODY[', b'BODY[]<', b'BODY[]<0>', b'BODY[]<0.0>',
                    b'BODY[]<99999999999999999999.1>', b'BODY[0]',
                    b'BODY[1.2.3.4.5.6.7.8.9]', b'BODY[HEADER.FIELDS ()]',
                    b'BODY[HEADER.FIELDS (\xe9)]', b'BODY[FOO]', b'()',
                    b'(FLAGS FLAGS)', b'BINARY[HEADER]', b'BODY[-1]',
                    b'BODY[1.]', b'BODY[.1]', b'(UID)(FLAGS)',
                    b'BODY[' + b'1.' * 300 + b'1]', b'MODSEQ',
                    b'BODY[TEXT]<4294967295.4294967295>']),
        lambda: rng.choice([b'', b'UID ']) + b'STORE ' + st() + b' ' +
        rng.choice([b'FLAGS', b'+FLAGS', b'-FLAGS', b'FLAGS.SILENT',
                    b'+FLAGS.SILENT', b'-FLAGS.SILENT', b'+flags', b'FLAG',
                    b'=FLAGS', b'+FLAGS.QUIET']) + b' ' + rng.choice(FLAGSETS),
        lambda: rng.choice([b'', b'UID ']) + rng.choice([b'COPY ', b'MOVE '])
        + st() + b' ' + mb(),
        lambda: b'IDLE', lambda: b'UID', lambda: b'UID NOOP',
        lambda: b'UID FETCH', lambda: b'UNSELECT',
    ]
    pools = {'nonauth': any_cmds + nonauth * 2 + auth + select,
             'auth': any_cmds + nonauth + auth * 3 + select,
             'selected': any_cmds + nonauth + auth * 2 + select * 3}
    return rng.choice(pools[state])()


def mutate(rng: random.Random, line: bytes) -> bytes:
    for _ in range(rng.choice([1, 1, 2, 3])):
        kind = rng.randrange(10)
        pos = rng.randrange(len(line) + 1)
        if kind == 0 and line:
            line = line[:pos] + line[pos + 1:]
        elif kind == 1:
            line = line[:pos] + rng.choice(SPECIAL) + line[pos:]
        elif kind == 2:
            line = line[:pos]
        elif kind == 3:
            line = line[:pos] + b'9' * rng.choice([20, 4400, 5000]) + \
                line[pos:]
        elif kind == 4:
            depth = rng.choice([50, 400, 1200, 20000])
            line = line[:pos] + b'(' * depth + b'x' + b')' * depth + \
                line[pos:]
        elif kind == 5:
            toks = line.split(b' ')
            if len(toks) > 1:
                i = rng.randrange(len(toks))
                toks.insert(i, toks[i])
                line = b' '.join(toks)
        elif kind == 6:
            line = line.swapcase()
        elif kind == 7:
            line = line[:pos] + bytes([rng.randrange(256)]) + line[pos:]
        elif kind == 8:
            line = line[:pos] + b'"' + line[pos:]
        else:
            line = line[:pos] + b'(' * rng.choice([1, 3, 30]) + line[pos:]
    return line


def balanced(line: bytes) -> bool:
    """Structurally complete on the wire: every {n+}/{n} marker that ends a
    physical line is followed by n bytes, and the data ends in LF."""
    pos = 0
    import re
    marker = re.compile(rb'\{(\d+)\+?\}\r?\n')
    # a marker is a marker only at the end of a physical line (RFC 7888:
    # literal = "{" number ["+"] "}" CRLF *CHAR8); "{n+}" anywhere else,
    # e.g. inside a quoted string, is ordinary text
    while True:
        nl = line.find(b'\n', pos)
        if nl < 0:
            return False
        phys = line[pos:nl + 1]
        m = None
        for m in marker.finditer(phys):
            pass
        if m is not None and m.end() == len(phys):
            if len(m.group(1)) > 12:
                return False
            n = int(m.group(1))
            if n > len(line):
                return False
            pos = nl + 1 + n
            if pos > len(line):
                return False
            continue
        pos = nl + 1
        if pos >= len(line):
            return True


def hostile_message(rng: random.Random) -> bytes:
    base = make_message(rng.randint(1, 99)).encode('latin-1')
    choices = [
        lambda: b'',
        lambda: b'\r\n',
        lambda: b'Subject: x\r\n',
        lambda: b'Subject: x',
        lambda: b'no header at all',
        lambda: b'Date: garbage\r\n\r\nbody\r\n',
        lambda: b'Date: Mon, 99 Foo 2024 99:99:99 +9999\r\n\r\nx',
        lambda: b'Date: \r\nSubject: ' + b'Re: ' * 2000 + b'x\r\n\r\nb\r\n',
        lambda: b'From: ' + b'a@b, ' * 3000 + b'\r\n\r\n',
        lambda: b'From: =?utf-8?B?' + b'A' * 300 + b'?= <x@y>\r\n\r\n',
        lambda: b'From: "unterminated <x@y>\r\nTo: <>\r\nCc: ;;;;\r\n\r\n',
        lambda: b'Content-Type: multipart/mixed; boundary="b"\r\n\r\n'
        b'--b\r\n\r\npart1\r\n--b\r\nContent-Type: message/rfc822\r\n\r\n'
        b'Subject: inner\r\n\r\ninner body\r\n--b--\r\n',
        lambda: b'Content-Type: multipart/mixed; boundary="b"\r\n\r\n--b\r\n'
        b'no closing boundary',
        lambda: b'Content-Type: multipart/mixed\r\n\r\nno boundary param',
        lambda: b'Content-Type: multipart/mixed; boundary=""\r\n\r\n--\r\n',
        lambda: b'Content-Type: ' + b'multipart/mixed; boundary=b\r\n\r\n' +
        b''.join(b'--b\r\nContent-Type: multipart/mixed; boundary=c%d\r\n\r\n'
                 % i for i in range(60)),
        lambda: b'Content-Type: message/rfc822\r\n\r\n' * 80 + b'x',
        lambda: b'Content-Type: text/plain; charset="\xff\xfe"; name*=x\r\n'
        b'Content-Transfer-Encoding: base64\r\n\r\n!!!not base64!!!\r\n',
        lambda: b'Content-Transfer-Encoding: quoted-printable\r\n\r\n=ZZ=\r\n',
        lambda: b'Content-Transfer-Encoding: x-unknown\r\n\r\nbody',
        lambda: b'Content-Disposition: attachment; filename="\r\n\r\nx',
        lambda: b'Content-Language: ' + b'en, ' * 500 + b'\r\n\r\nx',
        lambda: b'X-\xe9\xff: non-ascii header name\r\n\r\nbody\r\n',
        lambda: b'Subject: \xff\xfe\xfd\r\n\r\n\xff\x00\x01',
        lambda: b'Subject: a\rb\r\n\r\nbare\rcr\nand lf\n',
        lambda: b': empty name\r\n\r\n',
        lambda: b'Header-Without-Colon\r\n\r\nbody',
        lambda: b' leading continuation\r\nSubject: x\r\n\r\n',
        lambda: b'Message-ID: <' + b'x' * 5000 + b'>\r\nIn-Reply-To: <<>>\r\n'
        b'References: ' + b'<a@b> ' * 500 + b'\r\n\r\n',
        lambda: b'Subject: =?x?Q?=?=\r\nFrom: =?utf-8?Q?=FF=FE?=\r\n\r\n',
        lambda: bytes(rng.randrange(256) for _ in range(rng.randint(1, 200))),
        lambda: base[:rng.randrange(len(base))],
        lambda: base.replace(b'\r\n', b'\n'),
        lambda: base.replace(b'\r\n', b'\r'),
        lambda: base + b'\x00' * 10,
    ]
    msg = rng.choice(choices)()
    if rng.random() < 0.3 and msg:
        pos = rng.randrange(len(msg))
        msg = msg[:pos] + bytes([rng.randrange(256)]) + msg[pos + 1:]
    return msg


SIEVE_NAMES = [b'"a"', b'"x y"', b'"q\\"t"', b'{3+}\r\nabc', b'""', b'"\xc3\xa9"',
               b'"\xff"', b'{0+}\r\n', b'a', b'"' + b'n' * 300 + b'"', b'NIL',
               b'{2}\r\nab', b'"a\\b"', b'"\x00"']
SIEVE_BODIES = [b'"keep;"', b'{5+}\r\nkeep;', b'{0+}\r\n', b'""',
                b'{12+}\r\nif true {}\r\n', b'"\xff\xfe"', b'{4+}\r\n{9+}',
                b'{3+}\r\n\x00\x01\x02', b'"require \\"x\\";"',
                b'{99999999999+}\r\n', b'{5}\r\nkeep;', b'keep']


def gen_sieve_line(rng: random.Random) -> bytes:
    nm = lambda: rng.choice(SIEVE_NAMES)
    body = lambda: rng.choice(SIEVE_BODIES)
    cmds = [
        lambda: b'NOOP', lambda: b'NOOP "tag"', lambda: b'NOOP ' + nm(),
        lambda: b'CAPABILITY', lambda: b'STARTTLS', lambda: b'UNAUTHENTICATE',
        lambda: b'AUTHENTICATE "PLAIN" "AHVzZXIAcGFzcw=="',
        lambda: b'AUTHENTICATE "PLAIN"', lambda: b'AUTHENTICATE "NOPE" ""',
        lambda: b'AUTHENTICATE "PLAIN" "!!!"', lambda: b'AUTHENTICATE PLAIN',
        lambda: b'AUTHENTICATE "PLAIN" "/w=="', lambda: b'AUTHENTICATE "LOGIN"',
        lambda: b'HAVESPACE ' + nm() + b' ' + rng.choice(
            [b'10', b'0', b'99999999999999999999', b'-1', b'x', b'9' * 5000]),
        lambda: b'PUTSCRIPT ' + nm() + b' ' + body(),
        lambda: b'LISTSCRIPTS', lambda: b'SETACTIVE ' + nm(),
        lambda: b'GETSCRIPT ' + nm(), lambda: b'DELETESCRIPT ' + nm(),
        lambda: b'RENAMESCRIPT ' + nm() + b' ' + nm(),
        lambda: b'CHECKSCRIPT ' + body(),
        lambda: b'CHECKSCRIPT ' + rng.choice([
            b'"if"', b'"require [\\"a\\", ];"', b'"' + b'if true { ' * 200 + b'"',
            b'"keep; /* unterminated"', b'"# comment"', b'"text:\r\n.\r\n"',
            b'"if header :contains \\"a\\" \\"b\\" { discard; }"',
            b'"(((((((((("', b'"\\"\\\\\\"\\""']),
        lambda: b'FOO', lambda: b'', lambda: b'"quoted" command',
        lambda: b'PUTSCRIPT', lambda: b'GETSCRIPT', lambda: b'LOGOUT X']
    return rng.choice(cmds)()


def gen_sieve_case(rng: random.Random) -> dict:
    cfg = {'backend': 'dict', 'users': [USER], 'tls': rng.random() < 0.2,
           'buggify': []}
    if rng.random() < 0.3:
        cfg['max_append_len'] = rng.choice([10, 100])
    lines = []
    if rng.random() < 0.7:
        lines.append({'line': s(b'AUTHENTICATE "PLAIN" "AHVzZXIAcGFzcw=="\r\n'),
                      'complete': True})
    for _ in range(rng.randint(1, 8)):
        r = rng.random()
        body = gen_sieve_line(rng)
        if r < 0.5:
            pass
        elif r < 0.85:
            body = mutate(rng, body)
        else:
            body = bytes(rng.randrange(256)
                         for _ in range(rng.randint(0, 60)))
        line = body + b'\r\n'
        if len(line) >= 65000:
            line = line[:60000].replace(b'\n', b' ') + b'\r\n'
        lines.append({'line': s(line), 'complete': balanced(line)})
    return {'config': cfg, 'steps': lines, 'family': 'sieve',
            'state': 'sieve',
            'sieve_chunk_seed': rng.getrandbits(32)
            if rng.random() < 0.3 else None}


def run_sieve_inputs(case: dict, trace: bool = False) -> dict:
    from sim.world import World, innermost_pymap_frame
    from sim.sieve import SieveClient
    from sim.engine import Violation
    world = World(case['config'], seed=int(case.get('seed', 0)), trace=trace)
    violations = []
    n = 0

    def violate(clause, detail, **sig):
        sig.setdefault('backend', 'dict')
        sig['listener'] = 'managesieve'
        violations.append(Violation(property='C06', clause=clause,
                                    detail=detail, sig=sig, step=n,
                                    seq=world.seq))
    try:
        cl = SieveClient(world, 0)
        if case.get('sieve_chunk_seed') is not None:
            import random as _random
            cl.chunk_rng = _random.Random(case['sieve_chunk_seed'])
        canary = SieveClient(world, 1)
        world.run(0.5, None, [])
        wedged = False
        for step in case['steps']:
            if cl.conn.done or cl.error is not None or violations:
                break
            line = step['line'].encode('latin-1')
            before = len(cl.responses)
            n += 1
            cl.send(line)
            try:
                world.run(2.0, None, [])
            except Exception as exc:           # HangDetected is BaseException
                raise
            answered = len(cl.responses) > before
            if not step.get('complete'):
                wedged = True
            if not answered and not wedged and not cl.conn.done:
                # AUTHENTICATE exchanges send a bare string and wait
                if cl.pos < len(cl.conn.out):
                    cl.send(b'"*"\r\n')
                    world.run(2.0, None, [])
                    answered = len(cl.responses) > before
                if not answered and not cl.conn.done:
                    violate('unanswered', 'ManageSieve line %r got no OK/NO/'
                            'BYE within 2 virtual seconds' % line[:80])
                    break
            r = canary.command(b'NOOP\r\n')
            if r is None or not r.ok:
                violate('canary', 'another ManageSieve connection got no OK '
                        'for NOOP after %r' % line[:80])
                break
        for c in (cl, canary):
            task = c.conn.task
            if task.done() and not task.cancelled() and task.exception():
                exc = task.exception()
                from sim.loop import HangDetected
                violate('hang' if isinstance(exc, HangDetected)
                        else 'serverbug', '%s: %s' % (type(exc).__name__,
                                                      str(exc)[:200]),
                        exception=type(exc).__name__,
                        site=innermost_pymap_frame(exc))
                break
        # an exception caught by the listener's catch-all is answered with
        # NO "Server error.": a completion, so not a C06 violation; counted
        caught = sum(1 for info in world.server_errors
                     if 'exception' in info)
        res = {'violations': violations, 'digest': world.digest(),
               'stats': {'inputs': n, 'sieve_cases': 1,
                         'sieve_no_server_error': caught},
               'probes': dict(world.probes), 'fired': dict(world.fired),
               'moves': world.moves, 'sim_seconds': world.clock.now,
               'nontrivial': n >= 1}
        if trace:
            res['trace'] = world.trace
        return res
    finally:
        world.close()


def gen_input_case(rng: random.Random, tier: str, backends=('dict',)) -> dict:
    if rng.random() < 0.15:
        return gen_sieve_case(rng)
    state = rng.choice(['nonauth', 'auth', 'selected', 'selected'])
    cfg = {'backend': rng.choice(backends), 'users': [USER],
           'bad_command_limit': rng.choice([5, 5, 2, 0, 10]),
           'tls': rng.random() < 0.2, 'buggify': []}
    if rng.random() < 0.3:
        cfg['max_append_len'] = rng.choice([10, 100, 4096])
    steps = [{'actions': [{'sess': 0, 'kind': 'connect',
                           'peer': '127.0.0.1'},
                          {'sess': 1, 'kind': 'connect',
                           'peer': '127.0.0.1'}]},
             {'actions': [{'sess': 1, 'kind': 'login', 'user': 'user',
                           'password': 'pass'}]},
             {'actions': [{'sess': 1, 'kind': 'create', 'mailbox': 'Other'}]},
             {'actions': [{'sess': 1, 'kind': 'append', 'mailbox': 'INBOX',
                           'literal': 'litplus', 'msgs': [
                               {'data': make_message(1)},
                               {'data': make_message(2),
                                'flags': ['\\Seen', '\\Deleted']}]}]}]
    if state in ('auth', 'selected'):
        steps.append({'actions': [{'sess': 0, 'kind': 'login', 'user': 'user',
                                   'password': 'pass'}]})
    if state == 'selected':
        steps.append({'actions': [{'sess': 0, 'kind': rng.choice(
            ['select', 'select', 'examine']), 'mailbox': 'INBOX'}]})
    mode = rng.choice(['lines', 'lines', 'stored'])
    n_in = 0
    if mode == 'stored' and state != 'nonauth':
        data = hostile_message(rng)
        steps.append({'actions': [{
            'sess': 0, 'kind': 'append', 'mailbox': 'INBOX',
            'literal': rng.choice(['lit', 'litplus']),
            'msgs': [{'data': s(data)}], 'input': True, 'hostile': True}]})
        if state == 'auth':
            steps.append({'actions': [{'sess': 0, 'kind': 'select',
                                       'mailbox': 'INBOX'}]})
        for attr in rng.sample(FETCH_ATTRS, rng.randint(3, 8)):
            steps.append({'actions': [{'sess': 0, 'kind': 'fetch',
                                       'uid': rng.random() < 0.3,
                                       'set': rng.choice(['1:*', '*', '3']),
                                       'attrs': attr, 'input': True}]})
        for key in rng.sample(SEARCH_KEYS, rng.randint(3, 8)):
            steps.append({'actions': [{'sess': 0, 'kind': 'search',
                                       'keys': key, 'input': True}]})
        steps.append({'actions': [{'sess': 0, 'kind': 'copy', 'set': '1:*',
                                   'mailbox': 'Other', 'input': True}]})
    else:
        for i in range(rng.randint(1, 7)):
            r = rng.random()
            body = gen_command(rng, state)
            if r < 0.45:
                pass
            elif r < 0.85:
                body = mutate(rng, body)
            else:
                body = bytes(rng.randrange(256)
                             for _ in range(rng.randint(0, 60)))
            tag = rng.choice(['t%d' % i, 't%d' % i, 't%d' % i, 'A.b-1', '1',
                              '*', '+', 'a"b', '', 'x' * 200, '\xe9'])
            line = tag.encode('latin-1') + b' ' + body + b'\r\n'
            if len(line) >= 65000:
                # the property covers lines shorter than the 64 KiB limit
                line = line[:60000].replace(b'\n', b' ') + b'\r\n'
            act = {'sess': 0, 'kind': 'raw', 'parts': [s(line)],
                   'tagged': False, 'tag': tag, 'input': True,
                   'pipeline': True, 'complete': balanced(line)}
            if rng.random() < 0.4:
                act['chunk_seed'] = rng.getrandbits(32)
            steps.append({'actions': [act]})
            if body.upper().startswith(b'IDLE') or \
                    body.upper().startswith(b'AUTHENTICATE'):
                steps.append({'actions': [{
                    'sess': 0, 'kind': 'cont_data', 'data': s(rng.choice(
                        [b'DONE\r\n', b'*\r\n', b'\r\n', b'AHVzZXIAcGFzcw==\r\n',
                         b'!!!\r\n', b'done\r\n', b'\x00\r\n',
                         b'A' * 60000 + b'\r\n'])),
                    'input': True, 'cont': True}]})
    for st in steps:
        st.setdefault('sched_seed', None)
    return {'config': cfg, 'steps': steps, 'state': state}


def valid_tag(tag: bytes) -> bool:
    return bool(tag) and all(0x21 <= c < 0x7f and c not in b'(){%*"\\+'
                             for c in tag)


def run_inputs(case: dict, trace: bool = False,
               keep_all: bool = False) -> dict:
    if case.get('family') == 'sieve':
        return run_sieve_inputs(case, trace)
    ctx = Ctx(case, trace=trace)
    limit = case['config'].get('bad_command_limit', 5)
    consecutive_bad = 0
    wedged = False
    inputs = 0
    try:
        for i, step in enumerate(case['steps']):
            cl = ctx.clients.get(0)
            before = len(cl.log) if cl is not None else 0
            was_done = cl is not None and cl.conn.done
            cmds = ctx.run_step(step, i)
            cl = ctx.clients.get(0)
            act = step['actions'][0]
            if not act.get('input') or cl is None or was_done:
                continue
            if cl.stream.error is not None:
                break       # malformed output is C07's business
            inputs += 1
            got = cl.log[before:]
            cmd = cmds[0] if cmds else None
            tag = (cmd.tag if cmd is not None else b'')
            if act['kind'] == 'raw':
                tag = act['tag'].encode('latin-1')
            tagged = [r for r in got if r.tagged]
            star_bad = [r for r in got if r.kind == 'cond' and r.tag == b'*'
                        and r.name == b'BAD']
            byes = [r for r in got if r.name == b'BYE']
            conts = [r for r in got if r.kind == 'cont']
            what = 'input %d (%s) %r' % (
                inputs, act['kind'],
                (act.get('parts') or [act.get('data', act['kind'])])[0][:80])
            for r in byes:
                if r.code and r.code[0] == b'SERVERBUG':
                    # the task outcome carries the exception and site
                    pass
            answered = bool(tagged or star_bad or byes)
            if act.get('cont'):
                answered = answered or bool(got) or wedged
            if not answered and conts:
                # server wants more literal data than the input carried
                wedged = True
                answered = True
                ctx.stat('wedged_in_literal')
            if act['kind'] == 'raw' and not act.get('complete'):
                # the framing is (or may be) out of step with the client's
                # idea of lines from here on: nothing more is owed
                wedged = True
                answered = True
            if wedged:
                answered = True
            if not answered and not cl.conn.done:
                ctx.violate('C06', 'unanswered', '%s: no tagged completion, '
                            '* BAD, continuation or BYE within 2 virtual '
                            'seconds' % what, sig={'state': case['state']})
                break
            for r in tagged:
                if valid_tag(tag) and r.tag != tag and not wedged \
                        and act['kind'] == 'raw' and len(tagged) == 1 \
                        and act.get('complete') and b'{' not in \
                        act['parts'][0].encode('latin-1'):
                    ctx.violate('C06', 'wrong-tag', '%s: answered with tag '
                                '%r' % (what, r.tag))
            # consecutive BAD accounting
            for r in got:
                if r.kind != 'cond' or r.name == b'BYE':
                    continue
                if r.name == b'BAD' and (r.tagged or r.tag == b'*'):
                    consecutive_bad += 1
                elif r.tagged:
                    consecutive_bad = 0
            if cl.conn.server_closed and not cl.conn.client_reset:
                ctx.settle()
                logout = any(c.kind == 'logout' for c in cl.history) or \
                    b'LOGOUT' in act.get('parts', [''])[0].encode(
                        'latin-1').upper()
                if not cl.bye_seen:
                    ctx.violate('C06', 'close-without-bye', '%s: server '
                                'closed the connection without BYE '
                                '(consecutive BAD=%d, limit=%r)'
                                % (what, consecutive_bad, limit))
                    break
                if not logout and limit and consecutive_bad < limit and \
                        not any(r.code and r.code[0] == b'SERVERBUG'
                                for r in byes) and not wedged:
                    # not a clause of C06 (the statement only requires BYE
                    # before closing); counted so the evidence shows it
                    ctx.stat('disconnect_below_bad_limit')
            elif limit and consecutive_bad >= limit and not wedged:
                ctx.stat('connected_at_bad_limit')
            # abandon commands that will never be matched
            cl.pending.clear()
            # the canary must still be served
            canary = ctx.clients.get(1)
            if canary is not None and not canary.conn.done:
                canary.pending.clear()
                c = ctx.run_step({'actions': [{'sess': 1, 'kind': 'noop'}],
                                  'sched_seed': None}, i)[0]
                if c is None or not c.ok:
                    ctx.violate('C06', 'canary', '%s: another connection got '
                                'no OK for NOOP afterwards' % what)
                    break
            if cl.conn.done:
                break
        ctx.finish()
        res = ctx.result()
        if not keep_all:
            res['violations'] = [v for v in res['violations']
                                 if v['property'] == 'C06']
        res['nontrivial'] = inputs >= 1
        res['stats']['inputs'] = inputs
        if trace:
            res['trace'] = ctx.world.trace
        return res
    finally:
        ctx.close()


def unanswered(ctx: Ctx) -> None:
    """End of a multi-session case (holds released, IDLEs ended, NOOP
    everywhere, quiescent): every command line of a connection that is still
    up and was not faulted has its tagged result."""
    ctx.settle(3.0)
    for sid, cl in sorted(ctx.clients.items()):
        conn = cl.conn
        if conn.done or conn.client_reset or conn.client_eof or conn.held \
                or conn.inbox_eof or cl.stream.error is not None:
            continue
        for cmd in cl.history:
            if cmd.result is not None:
                continue
            if cmd.kind == 'idle' and not getattr(cmd, 'done_sent', False):
                continue
            ctx.violate('C06', 'unanswered', 'session %d: %s (tag %s) never '
                        'got its tagged result although the connection is '
                        'up and idle' % (sid, cmd.kind.upper(),
                                         cmd.tag.decode('latin-1')),
                        session=sid, sig={'command': cmd.kind})
            return


class C06(Profile):
    id = 'C06'
    BACKENDS = ('dict', 'dict', 'dict', 'maildir')
    level = 'exploration'
    quick_budget_s = 45.0
    thorough_budget_s = 420.0
    batch = 25
    rule = ('per case one connection in the not-authenticated, authenticated '
            'or selected state receives 1-7 command lines: grammar-derived '
            'from templates for every command (45%), those with 1-3 '
            'structural mutations - deleted/inserted special bytes, '
            'truncation, 5000-digit numbers, parentheses nested to depth '
            '20000, duplicated tokens, unterminated quotes (40%) - or raw '
            'bytes (15%), with IDLE/AUTHENTICATE continuation data; or a '
            'hostile stored message (35 shapes + byte mutation) followed by '
            'FETCH with 3-8 of 35 attributes, SEARCH with 3-8 of 39 keys and '
            'COPY; 15% of the cases go to the ManageSieve listener instead '
            '(1-8 lines from templates for every command with hostile names, '
            'script bodies and CHECKSCRIPT sources, mutated, or raw). A '
            'canary connection sends NOOP after every input. 25% of all '
            'cases instead replay the C01 multi-session generator (15%) or '
            'the C10 program generator (10%) and report only unexpected '
            'exceptions and hangs: valid commands that meet a stale view or '
            'a fault. '
            'Distinct = case hash; non-trivial = at least one input line '
            'reached the server.')
    assumptions = C01.assumptions + [
        'an input whose announced literal is longer than the bytes supplied '
        'is allowed to go unanswered (the server is owed data)',
        'answer bound: 2 virtual seconds after the last byte']
    components = C01.components

    def gen(self, rng, tier):
        from .common import backends, finish_cfg
        bk = backends(self.BACKENDS)
        r = rng.random()
        if r < 0.75:
            return finish_cfg(gen_input_case(rng, tier, backends=bk), rng)
        # valid commands meeting another session's changes: stale views,
        # vanished messages, cancelled and reset connections
        if r < 0.9:
            from .c01 import gen_concurrent_case
            case = gen_concurrent_case(rng, tier, backends=bk)
            case['family'] = 'concurrent'
        else:
            from .c10 import gen_model_case
            case = gen_model_case(rng, tier, backends=bk)
            case['family'] = 'model'
        return finish_cfg(case, rng)

    def run(self, case, trace=False):
        if case.get('family') in ('concurrent', 'model'):
            from .c01 import run_concurrent
            return run_concurrent(case, 'C06', trace, at_end=unanswered)
        return run_inputs(case, trace)


PROFILE = C06()
