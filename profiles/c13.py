"""C13 - SEARCH returns exactly the matching messages."""

from __future__ import annotations

import random
from datetime import datetime, timedelta, timezone

from sim.driver import Profile
from sim.engine import Ctx
from sim.shadow import canon_flag, parse_seqset
from .c01 import C01
from .common import USER

PEOPLE = ['Alice Smith <alice@example.com>', 'Bob Jones <bob@example.org>',
          'carol@test.net', 'Dave <dave@example.com>', 'eve@evil.example',
          # spellings a header parser may not give back as written
          '<frank@example.com>', 'gina@example.com (Gina  G)',
          '"Hal, Jr." <hal@example.com>']
WORDS = ['alpha', 'beta', 'gamma', 'delta', 'report', 'invoice', 'hello',
         'world', 'meeting', 'lunch']
NEEDLES = ['alice', 'ALICE', 'bob', 'example', 'smith', 'carol', 'test',
           'alpha', 'BETA', 'report', 'zzz', 'e', 'meet', 'hello world',
           'org', 'dave', 'lunch', 'inv', 'x-token', 'subject', '<frank',
           'gina  g', '(gina', '"hal', 'jr."']
ZONES = ['+0000', '-0800', '+0530', '+1300', '-1100']
MONTHS = ['Jan', 'Feb', 'Mar', 'Apr', 'May', 'Jun', 'Jul', 'Aug', 'Sep', 'Oct',
          'Nov', 'Dec']
DAYS = ['Mon', 'Tue', 'Wed', 'Thu', 'Fri', 'Sat', 'Sun']
FLAGS = ['\\Seen', '\\Answered', '\\Flagged', '\\Deleted', '\\Draft']
KEYWORDS = ['$Important', 'todo']


def tz(zone: str) -> timezone:
    sign = 1 if zone[0] == '+' else -1
    return timezone(sign * timedelta(hours=int(zone[1:3]),
                                     minutes=int(zone[3:5])))


def gen_dt(rng: random.Random) -> datetime:
    day = rng.choice([14, 15, 15, 16, 17])
    hour = rng.choice([0, 0, 1, 12, 22, 23, 23])
    return datetime(2024, 1, day, hour, rng.choice([0, 30, 59]), 0,
                    tzinfo=tz(rng.choice(ZONES)))


def imap_dt(dt: datetime) -> str:
    return '%2d-%s-%d %02d:%02d:%02d %s' % (
        dt.day, MONTHS[dt.month - 1], dt.year, dt.hour, dt.minute, dt.second,
        dt.strftime('%z'))


def rfc822_dt(dt: datetime) -> str:
    return '%s, %d %s %d %02d:%02d:%02d %s' % (
        DAYS[dt.weekday()], dt.day, MONTHS[dt.month - 1], dt.year, dt.hour,
        dt.minute, dt.second, dt.strftime('%z'))


def gen_msg(rng: random.Random, n: int) -> dict:
    hdr = {'From': rng.choice(PEOPLE), 'To': rng.choice(PEOPLE),
           'Subject': ' '.join(rng.sample(WORDS, rng.randint(1, 3)))}
    if rng.random() < 0.5:
        hdr['Cc'] = rng.choice(PEOPLE)
    if rng.random() < 0.3:
        hdr['Bcc'] = rng.choice(PEOPLE)
    sent = gen_dt(rng)
    hdr['Date'] = rfc822_dt(sent)
    hdr['X-Token'] = 'T%dT' % n
    body = '\r\n'.join(' '.join(rng.sample(WORDS, rng.randint(1, 4)))
                       for _ in range(rng.randint(1, 3))) + '\r\n'
    body += 'x' * rng.choice([0, 0, 50, 400])
    text = ''.join('%s: %s\r\n' % kv for kv in hdr.items()) + '\r\n' + body
    internal = gen_dt(rng)
    flags = [f for f in FLAGS if rng.random() < 0.3] + \
        [k for k in KEYWORDS if rng.random() < 0.2]
    return {'data': text, 'token': n, 'flags': flags,
            'date': imap_dt(internal),
            'm': {'headers': hdr, 'body': body, 'size': len(text),
                  'internal': imap_dt(internal), 'sent': rfc822_dt(sent)}}


def gen_key(rng: random.Random, depth: int, n_msgs: int):
    """A search program tree."""
    r = rng.random()
    if depth > 0 and r < 0.35:
        kind = rng.choice(['not', 'or', 'and', 'not'])
        if kind == 'not':
            return ('not', gen_key(rng, depth - 1, n_msgs))
        if kind == 'or':
            return ('or', gen_key(rng, depth - 1, n_msgs),
                    gen_key(rng, depth - 1, n_msgs))
        return ('and', [gen_key(rng, depth - 1, n_msgs)
                        for _ in range(rng.randint(2, 3))])
    k = rng.choice(['flag', 'flag', 'str', 'str', 'date', 'date', 'size',
                    'seq', 'uid', 'header', 'all', 'keyword', 'new'])
    if k == 'flag':
        return ('flag', rng.choice(['ANSWERED', 'DELETED', 'DRAFT', 'FLAGGED',
                                    'SEEN', 'RECENT', 'UNANSWERED',
                                    'UNDELETED', 'UNDRAFT', 'UNFLAGGED',
                                    'UNSEEN', 'OLD']))
    if k == 'new':
        return ('flag', 'NEW')
    if k == 'keyword':
        return ('keyword', rng.choice(['KEYWORD', 'UNKEYWORD']),
                rng.choice(KEYWORDS + ['nokw']))
    if k == 'str':
        return ('str', rng.choice(['FROM', 'TO', 'CC', 'BCC', 'SUBJECT',
                                   'BODY', 'TEXT']), rng.choice(NEEDLES))
    if k == 'date':
        return ('date', rng.choice(['BEFORE', 'ON', 'SINCE', 'SENTBEFORE',
                                    'SENTON', 'SENTSINCE']),
                '%d-Jan-2024' % rng.choice([13, 14, 15, 16, 17, 18]))
    if k == 'size':
        return ('size', rng.choice(['LARGER', 'SMALLER']),
                rng.choice([0, 100, 250, 300, 400, 700, 100000]))
    if k == 'seq':
        return ('seq', _set(rng, max(1, n_msgs)))
    if k == 'uid':
        return ('uid', _set(rng, 100 + max(1, n_msgs), 100))
    if k == 'header':
        return ('header', rng.choice(['Subject', 'FROM', 'x-token', 'Cc',
                                      'X-Missing', 'Date']),
                rng.choice(NEEDLES + ['', '']))
    return ('all',)


def twin(rng: random.Random, tree):
    """A key that differs from *tree* in one respect only (the other
    addressing mode, the other field, the other direction): a server that
    identifies keys too coarsely merges or drops one of the pair."""
    k = tree[0]
    if k == 'seq':
        return ('uid', tree[1])
    if k == 'uid':
        return ('seq', tree[1])
    if k == 'not':
        return rng.choice([tree[1], ('not', twin(rng, tree[1]))])
    if k == 'flag':
        name = tree[1]
        other = name[2:] if name.startswith('UN') else 'UN' + name
        if name in ('RECENT', 'OLD', 'NEW'):
            other = rng.choice([x for x in ('RECENT', 'OLD', 'NEW')
                                if x != name])
        return ('flag', other)
    if k == 'keyword':
        return rng.choice([
            ('keyword', 'UNKEYWORD' if tree[1] == 'KEYWORD' else 'KEYWORD',
             tree[2]),
            ('keyword', tree[1], rng.choice(KEYWORDS + ['nokw']))])
    if k == 'str':
        return rng.choice([
            ('str', rng.choice(['FROM', 'TO', 'CC', 'BCC', 'SUBJECT', 'BODY',
                                'TEXT']), tree[2]),
            ('str', tree[1], rng.choice(NEEDLES)),
            ('header', tree[1] if tree[1] not in ('BODY', 'TEXT')
             else 'Subject', tree[2])])
    if k == 'date':
        name = tree[1]
        other = name[4:] if name.startswith('SENT') else 'SENT' + name
        return rng.choice([
            ('date', other, tree[2]),
            ('date', rng.choice(['BEFORE', 'ON', 'SINCE']), tree[2]),
            ('date', name, '%d-Jan-2024' % rng.choice([13, 15, 17]))])
    if k == 'size':
        return rng.choice([
            ('size', 'SMALLER' if tree[1] == 'LARGER' else 'LARGER', tree[2]),
            ('size', tree[1], rng.choice([0, 250, 400, 100000]))])
    if k == 'header':
        return rng.choice([
            ('header', tree[1], rng.choice(NEEDLES + [''])),
            ('header', rng.choice(['Subject', 'FROM', 'Cc', 'Date']),
             tree[2])])
    if k == 'or':
        return ('or', tree[2], twin(rng, tree[1]))
    if k == 'and':
        return ('and', [twin(rng, t) for t in tree[1]])
    return ('not', ('all',))


def _set(rng, hi, lo=0) -> str:
    def num():
        if rng.random() < 0.2:
            return '*'
        return str(rng.randint(lo + 1, hi + 2))
    parts = []
    for _ in range(rng.choice([1, 1, 2])):
        parts.append(num() + ':' + num() if rng.random() < 0.5 else num())
    return ','.join(parts)


def encode_key(tree, rng=None, top=False) -> list:
    """-> token list for the client encoder."""
    k = tree[0]
    if k == 'not':
        return ['NOT'] + encode_key(tree[1])
    if k == 'or':
        return ['OR'] + encode_key(tree[1]) + encode_key(tree[2])
    if k == 'and':
        inner = []
        for t in tree[1]:
            inner += encode_key(t)
        if top:
            return inner
        return ['('] + inner + [')']
    if k == 'flag':
        return [tree[1]]
    if k == 'keyword':
        return [tree[1], tree[2]]
    if k == 'str':
        return [tree[1], ['quoted', tree[2]]]
    if k == 'date':
        return [tree[1], tree[2]]
    if k == 'size':
        return [tree[1], str(tree[2])]
    if k == 'seq':
        return [tree[1]]
    if k == 'uid':
        return ['UID', tree[1]]
    if k == 'header':
        return ['HEADER', tree[1], ['quoted', tree[2]]]
    return ['ALL']


def kinds_in(tree) -> set:
    k = tree[0]
    if k == 'not':
        return {'not'} | kinds_in(tree[1])
    if k == 'or':
        return {'or'} | kinds_in(tree[1]) | kinds_in(tree[2])
    if k == 'and':
        out = {'and'}
        for t in tree[1]:
            out |= kinds_in(t)
        return out
    return {k}


def may_refuse(tree) -> bool:
    return bool(kinds_in(tree) & {'seq', 'seqset', 'set'})


def rewrite(tree, rng: random.Random):
    """A logically equivalent program."""
    k = tree[0]
    r = rng.random()
    if r < 0.2:
        return ('not', ('not', tree))
    if k == 'or' and r < 0.6:
        if rng.random() < 0.5:
            return ('or', tree[2], tree[1])
        return ('not', ('and', [('not', tree[1]), ('not', tree[2])]))
    if k == 'and' and r < 0.6:
        items = list(tree[1])
        rng.shuffle(items)
        if rng.random() < 0.5:
            return ('and', items)
        acc = ('not', items[0])
        for t in items[1:]:
            acc = ('or', acc, ('not', t))
        return ('not', acc)
    if k == 'not' and r < 0.5:
        return ('not', rewrite(tree[1], rng))
    return ('and', [tree, ('all',)])


# ---- the independent evaluator -----------------------------------------------

def _date_of(text: str, fmt: str, utc: bool):
    dt = datetime.strptime(text.strip(), fmt)
    if utc:
        dt = dt.astimezone(timezone.utc)
    return dt.date()


def normalised(name: str, value: str) -> str:
    """The header value as Python's header registry gives it back - the
    reading behind the listed finding F-C13-header-normalised, used only to
    name that finding when the result differs from the text as written."""
    from email.policy import SMTP
    try:
        return str(SMTP.header_fetch_parse(name, value))
    except Exception:
        return value


def evaluate(tree, view: list, i: int, utc: bool) -> bool:
    """Does message view[i] (dict with uid, flags, m) satisfy the program?"""
    msg = view[i]
    k = tree[0]
    m = msg['m']
    flags = msg['flags']
    if k == 'not':
        return not evaluate(tree[1], view, i, utc)
    if k == 'or':
        return evaluate(tree[1], view, i, utc) or \
            evaluate(tree[2], view, i, utc)
    if k == 'and':
        return all(evaluate(t, view, i, utc) for t in tree[1])
    if k == 'all':
        return True
    if k == 'flag':
        name = tree[1]
        if name == 'NEW':
            return b'\\Recent' in flags and b'\\Seen' not in flags
        if name == 'OLD':
            return b'\\Recent' not in flags
        if name == 'RECENT':
            return b'\\Recent' in flags
        neg = name.startswith('UN')
        base = name[2:] if neg else name
        has = canon_flag(('\\' + base.capitalize()).encode()) in flags
        return has != neg
    if k == 'keyword':
        has = tree[2].encode() in flags
        return has if tree[1] == 'KEYWORD' else not has
    if k == 'str':
        field, needle = tree[1], tree[2].lower()
        if field == 'BODY':
            return needle in m['body'].lower()
        if field == 'TEXT':
            hdrtext = ''.join('%s: %s\r\n' % kv
                              for kv in m['headers'].items())
            return needle in hdrtext.lower() or needle in m['body'].lower()
        val = m['headers'].get(field.capitalize())
        if val is not None and len(utc) > 2:
            val = normalised(field, val)
        return val is not None and needle in val.lower()
    if k == 'header':
        name = tree[1].lower()
        for hk, hv in m['headers'].items():
            if hk.lower() == name:
                if len(utc) > 2:
                    hv = normalised(hk, hv)
                return tree[2].lower() in hv.lower()
        return False
    if k == 'date':
        want = datetime.strptime(tree[2], '%d-%b-%Y').date()
        if tree[1].startswith('SENT'):
            have = _date_of(m['sent'], '%a, %d %b %Y %H:%M:%S %z', utc[1])
            op = tree[1][4:]
        else:
            have = _date_of(m['internal'], '%d-%b-%Y %H:%M:%S %z', utc[0])
            op = tree[1]
        if op == 'BEFORE':
            return have < want
        if op == 'ON':
            return have == want
        return have >= want
    if k == 'size':
        return m['size'] > tree[2] if tree[1] == 'LARGER' \
            else m['size'] < tree[2]
    if k == 'seq':
        wanted = parse_seqset(tree[1].encode(), len(view))
        return wanted is not None and (i + 1) in wanted
    if k == 'uid':
        maxuid = view[-1]['uid'] if view else 0
        wanted = parse_seqset(tree[1].encode(), maxuid)
        return wanted is not None and msg['uid'] in wanted
    raise ValueError(k)


def has_key(tree, kinds) -> bool:
    if tree[0] in kinds:
        return True
    if tree[0] == 'not':
        return has_key(tree[1], kinds)
    if tree[0] == 'or':
        return has_key(tree[1], kinds) or has_key(tree[2], kinds)
    if tree[0] == 'and':
        return any(has_key(t, kinds) for t in tree[1])
    return False


def gen_search_case(rng: random.Random, tier: str, backends=('dict',)) -> dict:
    cfg = {'backend': rng.choice(backends), 'users': [USER], 'buggify': [],
           'bad_command_limit': 0}
    n = rng.randint(0, 12)
    msgs = [gen_msg(rng, i + 1) for i in range(n)]
    hidden = rng.random() < 0.25 and n >= 2
    queries = []
    for _ in range(rng.randint(5, 20)):
        tree = gen_key(rng, rng.choice([0, 1, 2, 3, 4]), n)
        r = rng.random()
        if r < 0.3:
            tree = ('and', [tree, gen_key(rng, 1, n)])
        elif r < 0.5:
            # the key and its near-twin side by side, either order, as a
            # conjunction or a disjunction
            pair = [tree, twin(rng, tree)]
            rng.shuffle(pair)
            tree = ('and', pair) if rng.random() < 0.7 else \
                ('or', pair[0], pair[1])
        q = {'tree': tree, 'uid': rng.random() < 0.4}
        if rng.random() < 0.4:
            q['equiv'] = rewrite(tree, rng)
        queries.append(q)
    return {'config': cfg, 'msgs': msgs, 'queries': queries,
            'hidden': [rng.randrange(n) for _ in range(rng.randint(1, 2))]
            if hidden else [], 'steps': [{'q': i}
                                         for i in range(len(queries))]}


def run_search(case: dict, trace: bool = False) -> dict:
    ctx = Ctx(case, trace=trace)
    nq = 0
    try:
        for sid in (0, 1):
            ctx.run_step({'actions': [{'sess': sid, 'kind': 'connect'}]}, -1)
            ctx.run_step({'actions': [{'sess': sid, 'kind': 'login',
                                       'user': 'user', 'password': 'pass'}]},
                         -1)
        cl = ctx.clients[0]

        def do(action, sid=0):
            return ctx.run_step({'actions': [dict(action, sess=sid)],
                                 'sched_seed': None}, ctx.step_index)[0]
        for m in case['msgs']:
            c = do({'kind': 'append', 'mailbox': 'INBOX', 'literal':
                    'litplus', 'msgs': [{'data': m['data'],
                                         'flags': m['flags'],
                                         'date': m['date']}]})
            if c is None or not c.ok:
                raise RuntimeError('set-up APPEND failed: %r' % (c.result,))
        do({'kind': 'select', 'mailbox': 'INBOX'})
        c = do({'kind': 'fetch', 'set': '1:*', 'attrs': [
            'UID', 'FLAGS', 'BODY.PEEK[HEADER.FIELDS (X-Token)]']})
        view = []
        by_token = {m['token']: m for m in case['msgs']}
        if case['msgs']:
            for r in c.untagged:
                if r.name != b'FETCH':
                    continue
                raw = [v for k, v in r.data.items()
                       if k.startswith(b'BODY[')][0]
                tok = int(bytes(raw).split(b'T')[1].split(b'T')[0]) \
                    if False else int(bytes(raw).split(b': T')[1]
                                      .split(b'T')[0])
                view.append({'uid': r.data[b'UID'], 'seq': r.num,
                             'flags': {canon_flag(f)
                                       for f in r.data[b'FLAGS']},
                             'm': by_token[tok]['m'], 'token': tok})
        view.sort(key=lambda v: v['seq'])
        hidden_uids = set()
        readings = [(True, False)] \
            if case['config'].get('backend') == 'maildir' \
            else [(False, False)]
        if case.get('hidden') and view:
            do({'kind': 'select', 'mailbox': 'INBOX'}, 1)
            for idx in set(case['hidden']):
                if idx < len(view):
                    uid = view[idx]['uid']
                    do({'kind': 'store', 'uid': True, 'set': str(uid),
                        'op': '+', 'flags': ['\\Deleted'], 'silent': True},
                       1)
                    hidden_uids.add(uid)
            # flags of survivors are unchanged; only those messages vanish
            do({'kind': 'expunge', 'uid_set': ','.join(
                str(u) for u in sorted(hidden_uids))}, 1)
            ctx.stat('hidden_expunged', len(hidden_uids))
        reported_gone: set[int] = set()

        def run_query(tree, uid: bool):
            toks = encode_key(tree, top=True)
            c = do({'kind': 'search', 'uid': uid, 'keys': toks})
            # the session may learn of the expunge after a UID SEARCH
            live_uids = set(cl.shadow.known_uids()) \
                if all(sl.uid is not None for sl in cl.shadow.slots) else None
            return c, live_uids

        for i, step in enumerate(case['steps']):
            ctx.step_index = i
            if cl.conn.done or any(
                    v['property'] == 'C13'
                    and v['sig'].get('key') != 'header-normalised'
                    for v in ctx.violations):
                break
            if sum(1 for v in ctx.violations if v['property'] == 'C13') > 3:
                break
            q = case['queries'][step['q']]
            tree, uid = q['tree'], q['uid']
            # the view at the moment the command is interpreted
            cur = [v for v in view if v['uid'] not in reported_gone]
            c, live = run_query(tree, uid)
            nq += 1
            if c is None or c.result is None:
                ctx.violate('C13', 'unanswered', 'query %r' % (tree,))
                break
            if c.cond != 'OK':
                ctx.stat('search_not_ok')
                if not may_refuse(tree):
                    # every generated program is legal RFC 3501 syntax over
                    # supported keys: only a sequence number beyond the view
                    # is a reason to refuse one
                    ctx.violate('C13', 'refused', 'legal program %r answered '
                                '%s %r' % (tree, c.cond, c.result.text),
                                key=','.join(sorted(kinds_in(tree))))
                    break
                continue
            srch = [r for r in c.untagged if r.name == b'SEARCH']
            if len(srch) != 1:
                ctx.violate('C13', 'response', '%d SEARCH responses for %r'
                            % (len(srch), tree))
                break
            nums = srch[0].data
            if len(set(nums)) != len(nums):
                ctx.violate('C13', 'duplicates', 'result %s for %r'
                            % (nums, tree))
                break
            if uid:
                got = set(nums)
            else:
                bad = [n for n in nums if not 1 <= n <= len(cur)]
                if bad:
                    ctx.violate('C13', 'range', 'sequence numbers %s outside '
                                '1..%d for %r' % (bad, len(cur), tree))
                    break
                got = {cur[n - 1]['uid'] for n in nums}
            ok = False
            expected = []
            # RFC 3501: the date "disregarding time and timezone", i.e. as
            # written.  maildir keeps the internal date as a file time stamp,
            # which has no zone: there the internal date is read in UTC
            for utc in readings:
                need = {cur[j]['uid'] for j in range(len(cur))
                        if cur[j]['uid'] not in hidden_uids
                        and evaluate(tree, cur, j, utc)}
                may = need | {v['uid'] for v in cur
                              if v['uid'] in hidden_uids}
                expected.append(sorted(need))
                if need <= got <= may:
                    ok = True
                    break
            if not ok:
                norm_ok = False
                for utc in readings:
                    norm = {cur[j]['uid'] for j in range(len(cur))
                            if cur[j]['uid'] not in hidden_uids
                            and evaluate(tree, cur, j, tuple(utc)
                                         + ('normalised',))}
                    if norm <= got <= norm | {v['uid'] for v in cur
                                               if v['uid'] in hidden_uids}:
                        norm_ok = True
                        break
                if norm_ok:
                    ctx.violate('C13', 'result', '%sSEARCH %s returned UIDs '
                                '%s: that is the match against the header '
                                'values as the header parser rewrites them, '
                                'the text of the headers gives %s' % (
                                    'UID ' if uid else '', toks_str(tree),
                                    sorted(got), expected[0]),
                                sig={'key': 'header-normalised'})
                    # the listed finding: noted, and the remaining queries
                    # of the case are still judged
                    if live is not None:
                        reported_gone |= {v['uid'] for v in view} - live
                    continue
                ctx.violate('C13', 'result', '%sSEARCH %s returned UIDs %s, '
                            'the evaluator says %s (own-zone dates) / %s '
                            '(other readings); view %s, hidden %s' % (
                                'UID ' if uid else '', toks_str(tree),
                                sorted(got), expected[0], expected[-1],
                                [v['uid'] for v in cur],
                                sorted(hidden_uids)),
                            sig={'key': first_key(tree)})
                break
            if q.get('equiv') is not None and not hidden_uids:
                c2, _ = run_query(q['equiv'], uid)
                if c2 is not None and c2.cond == 'OK':
                    s2 = [r for r in c2.untagged if r.name == b'SEARCH']
                    if s2 and sorted(s2[0].data) != sorted(nums):
                        ctx.violate('C13', 'equivalence', '%s gave %s but '
                                    'the equivalent %s gave %s' % (
                                        toks_str(tree), sorted(nums),
                                        toks_str(q['equiv']),
                                        sorted(s2[0].data)))
                        break
                    ctx.stat('equivalences_checked')
            if live is not None:
                reported_gone |= {v['uid'] for v in view} - live
        ctx.finish()
        res = ctx.result()
        res['violations'] = [v for v in res['violations']
                             if v['property'] == 'C13']
        res['nontrivial'] = nq >= 3 and len(case['msgs']) >= 1
        res['stats']['queries'] = nq
        if trace:
            res['trace'] = ctx.world.trace
        return res
    finally:
        ctx.close()


def toks_str(tree) -> str:
    out = []
    for t in encode_key(tree, top=True):
        out.append(t if isinstance(t, str) else '"%s"' % t[1])
    return ' '.join(out)


def first_key(tree) -> str:
    while tree[0] in ('not', 'or', 'and'):
        tree = tree[1] if tree[0] != 'and' else tree[1][0]
    return '%s:%s' % (tree[0], tree[1] if len(tree) > 1 and
                      tree[0] in ('str', 'date', 'flag', 'size') else '')


class C13(Profile):
    id = 'C13'
    BACKENDS = ('dict', 'dict', 'dict', 'maildir')
    level = 'exploration'
    quick_budget_s = 40.0
    thorough_budget_s = 400.0
    batch = 20
    rule = ('mailboxes of 0-12 generated single-part ASCII messages with '
            'controlled flags and keywords, sizes, internal dates and Date '
            'headers in 5 time zones around midnight, From/To/Cc/Bcc/'
            'Subject/body from a small vocabulary; 5-20 search programs per '
            'case to nesting depth 4 over every supported key (flags, '
            'KEYWORD, FROM/TO/CC/BCC/SUBJECT/BODY/TEXT, HEADER, BEFORE/ON/'
            'SINCE/SENT*, LARGER/SMALLER, sequence and UID sets with *, '
            'NOT/OR/parenthesised lists), as SEARCH or UID SEARCH; 40% with a '
            'logically equivalent rewrite (double negation, De Morgan, '
            'commutation, reordering); 20% put a key next to its near-twin '
            '(same set as sequence and as UID set, other field, other '
            'direction, other value); in 25% of cases a second session '
            'expunges 1-2 messages first (either inclusion accepted for '
            'those). Non-trivial = >= 3 queries on a non-empty mailbox.')
    assumptions = C01.assumptions + [
        '"disregarding time and timezone" is read as the calendar date as '
        'written in the value\'s own zone (RFC 3501 6.4.4), for Date '
        'headers on both backends and for internal dates on dict; maildir '
        'stores the internal date as a zone-less file time stamp, there '
        'the internal date is compared in UTC',
        'string keys are case-insensitive substring tests on the unfolded '
        'header value as written / body text; where the answer equals the '
        'evaluator\'s answer over the header registry\'s rewritten value '
        'instead, the violation carries key=header-normalised (the listed '
        'open finding)',
        'every generated program is legal: one not answered OK is a '
        'violation unless it names a sequence number beyond the view']
    components = C01.components

    def gen(self, rng, tier):
        from .common import backends, finish_cfg
        return finish_cfg(gen_search_case(
            rng, tier, backends=backends(self.BACKENDS)), rng)

    def run(self, case, trace=False):
        return run_search(case, trace)


PROFILE = C13()
