"""C20 - lock primitives give the exclusion they document."""

from __future__ import annotations

import asyncio
import hashlib
import os
import random
import shutil
import tempfile

from sim import env
from sim.driver import Profile
from sim.loop import SimLoop
from sim.world import SCRATCH_ROOT
from sim.engine import Violation


class _Boom(Exception):
    pass


class _MiniWorld:
    """Just enough of World for env's buggify hooks."""

    def __init__(self, armed, p, rng) -> None:
        self.armed = set(armed)
        self.p = p
        self.sched_rng = rng
        self.fired = {}

    def buggify(self, kind: str) -> bool:
        if kind not in self.armed or self.sched_rng is None:
            return False
        if self.sched_rng.random() < self.p:
            self.fired[kind] = self.fired.get(kind, 0) + 1
            return True
        return False

    def permute(self, kind, items):
        return items

    def on_server_log(self, record, exc) -> None:
        pass


def gen_lock_case(rng: random.Random, tier: str) -> dict:
    kind = 'rw' if rng.random() < 0.7 else 'file'
    n = rng.randint(2, 4)
    tasks = []
    for _ in range(n):
        prog = []
        for _ in range(rng.randint(1, 4)):
            op = {'kind': rng.choice(['read', 'write']) if kind == 'rw'
                  else rng.choice(['write', 'write', 'read']),
                  'delay': rng.choice([0, 0, 0.001, 0.002, 0.005, 0.01]),
                  'inner': [rng.choice([0, 0, 0.001, 0.003, 0.01])
                            for _ in range(rng.randint(1, 3))]}
            if rng.random() < 0.08:
                op['raise'] = True
            prog.append(op)
        tasks.append(prog)
    case = {'lock': kind, 'tasks': tasks,
            'buggify': ['lock_yield'] if rng.random() < 0.6 else [],
            'buggify_p': rng.choice([0.1, 0.3, 0.6]),
            'sched_seed': rng.getrandbits(32), 'steps': []}
    if rng.random() < 0.5:
        case['cancel'] = {'task': rng.randrange(n),
                          'at': rng.randint(0, 40)}
    return case


def run_lock_case(case: dict, trace: bool = False) -> dict:
    env.install()
    env.reset_process_state(case.get('seed', 0))
    rng = random.Random(case.get('sched_seed', 0))
    world = _MiniWorld(case.get('buggify', ()), case.get('buggify_p', 0.3),
                       rng)
    env.set_current(world)
    loop = SimLoop(env.CLOCK)
    events: list = []
    digest = hashlib.sha256()
    scratch = None
    violations: list = []

    def log(*rec):
        events.append(rec)
        digest.update(repr(rec).encode())

    def violate(clause, detail, **sig):
        sig.setdefault('lock', case['lock'])
        violations.append(Violation(property='C20', clause=clause,
                                    detail=detail, sig=sig, step=0,
                                    seq=len(events)))
    try:
        from pymap.concurrent import ReadWriteLock, FileLock
        if case['lock'] == 'rw':
            lock = ReadWriteLock.for_asyncio()
            lock_path = None
        else:
            scratch = tempfile.mkdtemp(prefix='pymap-verif-lock-',
                                       dir=SCRATCH_ROOT)
            lock_path = os.path.join(scratch, 'x.lock')
            lock = FileLock(lock_path)

        async def worker(tid: int, prog: list) -> None:
            for k, op in enumerate(prog):
                if op['delay']:
                    await asyncio.sleep(op['delay'])
                cm = lock.read_lock() if op['kind'] == 'read' \
                    else lock.write_lock()
                try:
                    async with cm:
                        log(tid, k, 'enter', op['kind'])
                        try:
                            for dt in op['inner']:
                                await asyncio.sleep(dt)
                            if op.get('raise'):
                                raise _Boom()
                        finally:
                            log(tid, k, 'exit', op['kind'])
                except _Boom:
                    pass
                except asyncio.TimeoutError:
                    log(tid, k, 'timeout', op['kind'])

        tasks = [loop.create_task(worker(i, prog))
                 for i, prog in enumerate(case['tasks'])]
        cancel = case.get('cancel')
        steps = 0
        while loop.busy(env.CLOCK.now + 60.0) and steps < 5000:
            if cancel and steps == cancel['at'] \
                    and cancel['task'] < len(tasks):
                t = tasks[cancel['task']]
                if not t.done():
                    t.cancel()
                    log('cancel', cancel['task'], steps)
                    world.fired['fault:cancel'] = 1
            loop.step()
            steps += 1
        stuck = [i for i, t in enumerate(tasks) if not t.done()]
        if stuck:
            violate('deadlock', 'tasks %s never finished although every '
                    'holder released (60 virtual seconds, %d steps)'
                    % (stuck, steps))
        for i, t in enumerate(tasks):
            if t.done() and not t.cancelled() and t.exception() is not None:
                exc = t.exception()
                violate('task-error', 'task %d ended with %s: %s'
                        % (i, type(exc).__name__, exc),
                        exception=type(exc).__name__)
        # exclusion from the enter/exit log
        inside: dict = {}
        for rec in events:
            if rec[0] == 'cancel':
                continue
            tid, k, what, kind = rec
            if what == 'enter':
                for (otid, ok), okind in inside.items():
                    if case['lock'] == 'rw':
                        clash = kind == 'write' or okind == 'write'
                    else:
                        clash = kind == 'write' and okind == 'write'
                    if clash:
                        violate('overlap', 'task %d entered a %s section '
                                'while task %d was inside a %s section'
                                % (tid, kind, otid, okind),
                                pair='%s-in-%s' % (kind, okind))
                        break
                inside[(tid, k)] = kind
            elif what == 'exit':
                inside.pop((tid, k), None)
            if violations:
                break
        # usable afterwards: a fresh writer gets the lock
        if not stuck and not violations:
            got = []

            async def fresh() -> None:
                async with lock.write_lock():
                    got.append(True)
            ft = loop.create_task(fresh())
            n2 = 0
            while loop.busy(env.CLOCK.now + 30.0) and n2 < 3000:
                loop.step()
                n2 += 1
            if not got:
                why = ''
                if ft.done() and not ft.cancelled() and ft.exception():
                    why = ' (%r)' % ft.exception()
                violate('unusable', 'after all tasks ended%s a fresh task '
                        'could not obtain the write lock%s' % (
                            ' and one was cancelled' if cancel else '', why),
                        cancelled=bool(cancel))
            if lock_path is not None and os.path.exists(lock_path):
                violate('lockfile-left', 'lock file still present after '
                        'every holder exited')
        res = {'violations': violations, 'digest': digest.hexdigest(),
               'stats': {'lock_events': len(events), 'tasks': len(tasks)},
               'probes': {}, 'fired': dict(world.fired), 'moves': steps,
               'sim_seconds': env.CLOCK.now,
               'nontrivial': len(case['tasks']) >= 2 and len(events) >= 4,
               'inter': [hashlib.sha1(repr([(e[0], e[2]) for e in events
                                            if e[0] != 'cancel'])
                                      .encode()).hexdigest()[:16]]}
        if trace:
            res['trace'] = [(i, 0.0, 'lock') + tuple(map(str, e))
                            for i, e in enumerate(events)]
        return res
    finally:
        loop.watchdog = False
        loop.shutdown()
        env.set_current(None)
        if scratch:
            shutil.rmtree(scratch, ignore_errors=True)


class C20(Profile):
    id = 'C20'
    level = 'exploration'
    quick_budget_s = 30.0
    thorough_budget_s = 300.0
    batch = 200
    rule = ('2-4 harness tasks on one ReadWriteLock.for_asyncio() (70%) or '
            'one FileLock on tmpfs (30%), each a program of 1-4 read/write '
            'acquisitions with start delays and 1-3 sleeps inside the '
            'critical section (8% raise inside it); asyncio.Lock.acquire '
            'and release really suspend under lock_yield; in half of the '
            'cases one task is cancelled at a seeded loop iteration (0-40). '
            'Oracle from enter/exit events: no writer overlaps anyone '
            '(FileLock: no two writers), all tasks end within 60 virtual '
            'seconds, no task dies of an exception of the lock itself, a '
            'fresh task then obtains the write lock, the lock file is gone. '
            'Non-trivial = >= 2 tasks and >= 2 critical sections entered.')
    assumptions = ['critical sections stay far below FileLock\'s retry '
                   'budget (about 10 s) and its 600 s expiry, so TimeoutError '
                   'and lock breaking (documented behaviour) do not occur',
                   'virtual time; timers with equal deadlines fire in heap '
                   'order']
    components = {'real': ['pymap.concurrent._AsyncioReadWriteLock',
                           'pymap.concurrent.FileLock', 'asyncio.Lock'],
                  'stub': ['threading variants are not run']}

    def gen(self, rng, tier):
        return gen_lock_case(rng, tier)

    def run(self, case, trace=False):
        return run_lock_case(case, trace)

    def simplify(self, case):
        import json
        for i in range(len(case['tasks'])):
            if len(case['tasks']) > 2:
                c = json.loads(json.dumps(case))
                del c['tasks'][i]
                if c.get('cancel') and c['cancel']['task'] >= len(c['tasks']):
                    c['cancel']['task'] = 0
                yield c
        for i, prog in enumerate(case['tasks']):
            for k in range(len(prog)):
                if len(prog) > 1:
                    c = json.loads(json.dumps(case))
                    del c['tasks'][i][k]
                    yield c
        if case.get('cancel'):
            c = json.loads(json.dumps(case))
            del c['cancel']
            yield c
        if case.get('buggify'):
            c = json.loads(json.dumps(case))
            c['buggify'] = []
            yield c


PROFILE = C20()
