"""C04 - UIDs are strictly increasing, never reused, and truthfully reported."""

from __future__ import annotations

import random

from sim.driver import Profile
from sim.engine import Ctx, make_message, token_of
from .c01 import C01
from .common import USER, Tokens, maybe_seed, pick_buggify, seq_set

BOXES = ['INBOX', 'A', 'B']
OBS = 9


def gen_uid_case(rng: random.Random, tier: str, backends=('dict',)) -> dict:
    n = rng.randint(1, 3)
    cfg = {'backend': rng.choice(backends), 'users': [USER],
           'buggify': pick_buggify(rng), 'buggify_p': rng.choice([0.1, 0.3]),
           'bad_command_limit': 0}
    tokens = Tokens()
    login = {'kind': 'login', 'user': 'user', 'password': 'pass'}
    steps = [{'actions': [{'sess': i, 'kind': 'connect'}
                          for i in list(range(n)) + [OBS]]},
             {'actions': [dict(login, sess=i)
                          for i in list(range(n)) + [OBS]]},
             {'actions': [{'sess': OBS, 'kind': 'create', 'mailbox': 'A'}]},
             {'actions': [{'sess': OBS, 'kind': 'create', 'mailbox': 'B'}]}]
    names = list(BOXES)
    steps.append({'actions': [{'sess': i, 'kind': 'select',
                               'mailbox': rng.choice(names)}
                              for i in range(n)]})

    def msgs(k):
        out = []
        for _ in range(k):
            t = tokens.take()
            out.append({'data': make_message(t), 'token': t})
        return out
    for _ in range(rng.randint(6, 28)):
        r = rng.random()
        if r < 0.08 and len(names) > 1:
            # quiet namespace step
            old = rng.choice([x for x in names if x != 'INBOX'] or ['A'])
            if rng.random() < 0.5:
                new = old + 'x'
                steps.append({'actions': [{'sess': OBS, 'kind': 'rename',
                                           'mailbox': old, 'to': new}],
                              'quiet': True})
                names[names.index(old)] = new
            else:
                steps.append({'actions': [{'sess': OBS, 'kind': 'delete',
                                           'mailbox': old}], 'quiet': True})
                steps.append({'actions': [{'sess': OBS, 'kind': 'create',
                                           'mailbox': old}], 'quiet': True})
            continue
        acts = []
        for sess in rng.sample(range(n), rng.randint(1, n)):
            k = rng.random()
            if k < 0.4:
                acts.append({'sess': sess, 'kind': 'append',
                             'mailbox': rng.choice(names),
                             'msgs': msgs(rng.choice([1, 1, 2, 3])),
                             'literal': rng.choice(['lit', 'litplus'])})
            elif k < 0.6:
                acts.append({'sess': sess,
                             'kind': rng.choice(['copy', 'copy', 'move']),
                             'uid': False, 'set': seq_set(rng, 5),
                             'mailbox': rng.choice(names)})
            elif k < 0.8:
                # expunge the highest, the next add must not reuse its UID
                acts.append({'sess': sess, 'kind': 'store', 'set': '*',
                             'op': '+', 'flags': ['\\Deleted'],
                             'silent': True, 'then_expunge': True})
            elif k < 0.86:
                acts.append({'sess': sess, 'kind': 'select',
                             'mailbox': rng.choice(names)})
            elif k < 0.9:
                # housekeeping of the selected mailbox's UID list
                acts.append({'sess': sess, 'kind': 'check'})
            else:
                acts.append({'sess': sess, 'kind': 'status',
                             'mailbox': rng.choice(names),
                             'items': ['MESSAGES', 'UIDNEXT',
                                       'UIDVALIDITY', 'MAILBOXID']})
        if cfg['backend'] == 'maildir' and rng.random() < 0.3:
            # the delivery agent drops a file behind the server's back,
            # somewhere inside the step
            t = tokens.take()
            acts.append({'kind': 'deliver', 'mailbox': rng.choice(names),
                         'data': make_message(t), 'token': t,
                         'subdir': rng.choice(['new', 'new', 'cur']),
                         'at': rng.choice([0, 0, rng.randint(1, 60)])})
        if cfg['backend'] == 'maildir' and rng.random() < 0.3:
            # another process holds the UID-list lock for a while
            acts.append({'kind': 'extlock', 'mailbox': rng.choice(names),
                         'hold': rng.choice([0.005, 0.02, 0.05, 0.12, 0.3,
                                             0.7]),
                         'at': rng.choice([0, 0, rng.randint(1, 40)])})
        steps.append({'actions': acts, 'sched_seed': maybe_seed(rng, 0.3)})
        if any(a.get('then_expunge') for a in acts):
            steps.append({'actions': [{'sess': a['sess'], 'kind': 'expunge'}
                                      for a in acts
                                      if a.get('then_expunge')],
                          'sched_seed': maybe_seed(rng, 0.3)})
    for st in steps:
        st.setdefault('sched_seed', None)
    return {'config': cfg, 'steps': steps, 'names': BOXES}


class UidBook:
    """Everything ever learnt about (mailbox identity, UIDVALIDITY)."""

    def __init__(self) -> None:
        self.tokens: dict = {}      # key -> {uid: token}
        self.maxseen: dict = {}     # key -> highest UID at last quiet point
        self.uidnext: dict = {}     # key -> highest UIDNEXT reported so far
        self.key_of: dict = {}      # name -> key at the last quiet point
        self.count: dict = {}       # key -> messages at the last quiet point


def observe(ctx: Ctx, book: UidBook, names: list[str], step_assigned: dict,
            what: str) -> bool:
    """Quiescent point: STATUS + dump of every mailbox."""
    obs = ctx.clients[OBS]
    ctx.quiesce()
    new_keys = {}
    for name in names:
        c = ctx.run_step({'actions': [{'sess': OBS, 'kind': 'status',
                                       'mailbox': name, 'items': [
                                           'MESSAGES', 'UIDNEXT',
                                           'UIDVALIDITY', 'MAILBOXID']}],
                          'sched_seed': None}, ctx.step_index)[0]
        obs.pending.clear()
        if c is None or not c.ok:
            continue
        st = [r for r in c.untagged if r.name == b'STATUS']
        if not st:
            continue
        data = st[0].data[1]
        key = (data.get(b'MAILBOXID'), data.get(b'UIDVALIDITY'))
        new_keys[name] = key
        dump = ctx.probe(name, body=True)
        if dump is None:
            continue
        ctx.stat('mailbox_observations')
        known = book.tokens.setdefault(key, {})
        before_max = book.maxseen.get(key, 0)
        uids = dump['order']
        if uids != sorted(uids) or len(set(uids)) != len(uids):
            ctx.violate('C04', 'order', '%s: %s lists UIDs %s' % (what, name,
                                                                  uids))
            return False
        for uid in uids:
            tok = token_of(bytes(dump['msgs'][uid]['body'] or b''))
            if uid in known:
                if known[uid] != tok:
                    ctx.violate('C04', 'reuse', '%s: UID %d of %s (identity '
                                '%r) denoted token %r before and token %r '
                                'now' % (what, uid, name, key, known[uid],
                                         tok))
                    return False
            else:
                if uid <= before_max:
                    ctx.violate('C04', 'not-increasing', '%s: new message '
                                '(token %r) in %s got UID %d, but UID %d had '
                                'already been assigned there'
                                % (what, tok, name, uid, before_max))
                    return False
                prev_next = book.uidnext.get(key)
                if prev_next is not None and uid < prev_next:
                    ctx.violate('C04', 'uidnext-high', '%s: %s reported '
                                'UIDNEXT %d earlier but then assigned UID %d'
                                % (what, name, prev_next, uid))
                    return False
                known[uid] = tok
        top = max(list(known) + [0])
        nxt = data.get(b'UIDNEXT')
        if nxt is not None:
            if nxt <= top:
                ctx.violate('C04', 'uidnext-low', '%s: STATUS %s reports '
                            'UIDNEXT %d but UID %d has been assigned'
                            % (what, name, nxt, top))
                return False
            book.uidnext[key] = max(book.uidnext.get(key, 0), nxt)
        book.maxseen[key] = top
        book.count[key] = len(uids)
    book.key_of = new_keys
    return True


def run_uids(case: dict, trace: bool = False) -> dict:
    ctx = Ctx(case, trace=trace)
    book = UidBook()
    names = list(case['names'])
    assigned_n = 0
    try:
        for i, step in enumerate(case['steps']):
            ctx.step_index = i
            if any(v['property'] == 'C04' for v in ctx.violations):
                break
            # source contents before the step, for COPYUID pairing
            src_tokens = {}
            for act in step['actions']:
                if act['kind'] in ('copy', 'move'):
                    cl = ctx.clients.get(act['sess'])
                    if cl is not None and cl.shadow.selected:
                        nm = cl.shadow.selected.get('mailbox')
                        key = book.key_of.get(nm)
                        if key is not None:
                            src_tokens[act['sess']] = dict(
                                book.tokens.get(key, {}))
            cmds = ctx.run_step(step, i)
            # commands stalled past the horizon (extlock, lock_stall) finish
            # before the observer looks
            ctx.quiesce()
            for cl in ctx.clients.values():
                cl.pending.clear()
            for act in step['actions']:
                if act['kind'] == 'rename' and 'mailbox' in act:
                    pass
            # names after namespace steps
            for act, cmd in zip(step['actions'], cmds):
                if cmd is None or not cmd.ok:
                    continue
                if act['kind'] == 'rename' and act['mailbox'] in names:
                    names[names.index(act['mailbox'])] = act['to']
            if i < 4:
                continue
            # a STATUS / SELECT answered inside the step: it counted m
            # messages while k existed at the last quiet point, so at least
            # m-k messages have been added since, each with a UID above
            # everything assigned before; UIDNEXT must be above all of them
            for act, cmd in zip(step['actions'], cmds):
                if cmd is None or not cmd.ok or \
                        cmd.kind not in ('status', 'select', 'examine'):
                    continue
                if cmd.kind == 'status':
                    st = [r for r in cmd.untagged if r.name == b'STATUS']
                    if not st:
                        continue
                    data = st[0].data[1]
                    key = (data.get(b'MAILBOXID'), data.get(b'UIDVALIDITY'))
                    m, nxt = data.get(b'MESSAGES'), data.get(b'UIDNEXT')
                else:
                    sel = cmd.extra.get('sel') or {}
                    key = (sel.get(b'MAILBOXID'), sel.get(b'UIDVALIDITY'))
                    ex = [r.num for r in cmd.untagged if r.name == b'EXISTS']
                    m, nxt = (ex[0] if ex else None), sel.get(b'UIDNEXT')
                if key not in book.count or m is None or nxt is None:
                    continue
                ctx.stat('uidnext_in_step')
                floor = book.maxseen.get(key, 0) + max(0, m - book.count[key])
                if nxt <= floor:
                    ctx.violate('C04', 'uidnext-low', 'step %d: %s %s '
                                'reports %d messages and UIDNEXT %d, but %d '
                                'messages with highest UID %d existed before '
                                'the step, so a UID >= %d exists'
                                % (i, cmd.kind.upper(), act['mailbox'], m,
                                   nxt, book.count[key],
                                   book.maxseen.get(key, 0), floor),
                                sig={'where': cmd.kind + '-in-step'})
                    break
            what = 'after step %d' % i
            if not observe(ctx, book, names, {}, what):
                break
            # the response codes of this step against the dumps
            events = []
            for act, cmd in zip(step['actions'], cmds):
                if cmd is None or not cmd.ok:
                    continue
                kind = cmd.kind
                code = cmd.result.code
                if kind == 'move':
                    codes = [r.code for r in cmd.untagged if r.kind == 'cond'
                             and r.code and r.code[0] == b'COPYUID']
                    code = codes[0] if codes else None
                if kind == 'append':
                    if not code or code[0] != b'APPENDUID':
                        ctx.violate('C04', 'appenduid', '%s: APPEND OK '
                                    'without APPENDUID' % what)
                        break
                    uv, uids = code[1]
                    key = book.key_of.get(act['mailbox'] if
                                          act['mailbox'].upper() != 'INBOX'
                                          else 'INBOX')
                    if len(uids) != len(act['msgs']):
                        ctx.violate('C04', 'appenduid', '%s: APPENDUID lists '
                                    '%d UIDs for %d messages'
                                    % (what, len(uids), len(act['msgs'])))
                        break
                    if key is not None and key[1] == uv:
                        toks = book.tokens.get(key, {})
                        for uid, m in zip(uids, act['msgs']):
                            assigned_n += 1
                            if uid in toks and toks[uid] != m['token']:
                                ctx.violate('C04', 'appenduid-wrong', '%s: '
                                            'APPENDUID says token %r got UID '
                                            '%d, UID FETCH finds token %r'
                                            % (what, m['token'], uid,
                                               toks[uid]))
                                break
                        if uids != sorted(uids) or \
                                len(set(uids)) != len(uids):
                            ctx.violate('C04', 'appenduid', '%s: APPENDUID '
                                        '%s not ascending' % (what, uids))
                        events.append((key, uids, cmd.seq_invoke,
                                       cmd.seq_return))
                elif kind in ('copy', 'move') and code and \
                        code[0] == b'COPYUID':
                    uv, src, dst = code[1]
                    key = book.key_of.get(act['mailbox'])
                    if len(src) != len(dst):
                        ctx.violate('C04', 'copyuid', '%s: COPYUID %s -> %s'
                                    % (what, src, dst))
                        break
                    st = src_tokens.get(act['sess'])
                    if key is not None and key[1] == uv and st is not None:
                        toks = book.tokens.get(key, {})
                        for su, du in zip(src, dst):
                            assigned_n += 1
                            if su in st and du in toks and \
                                    st[su] != toks[du]:
                                ctx.violate('C04', 'copyuid-pairing', '%s: '
                                            'COPYUID pairs source UID %d '
                                            '(token %r) with destination UID '
                                            '%d (token %r)'
                                            % (what, su, st[su], du,
                                               toks[du]))
                                break
                        events.append((key, dst, cmd.seq_invoke,
                                       cmd.seq_return))
            # non-overlapping operations of one step: earlier gets lower UIDs
            for a in events:
                for b_ in events:
                    if a is b_ or a[0] != b_[0] or a[0] is None:
                        continue
                    if a[3] < b_[2] and a[1] and b_[1] and \
                            max(a[1]) >= min(b_[1]):
                        ctx.violate('C04', 'not-increasing', '%s: operation '
                                    'that finished first was given UIDs %s, '
                                    'a later one %s' % (what, a[1], b_[1]))
        ctx.finish()
        res = ctx.result()
        res['violations'] = [v for v in res['violations']
                             if v['property'] == 'C04']
        res['nontrivial'] = assigned_n >= 3
        res['stats']['uids_attributed'] = assigned_n
        if trace:
            res['trace'] = ctx.world.trace
        return res
    finally:
        ctx.close()


class C04(Profile):
    id = 'C04'
    BACKENDS = ('dict', 'dict', 'dict', 'maildir')
    level = 'exploration'
    quick_budget_s = 40.0
    thorough_budget_s = 400.0
    batch = 15
    rule = ('1-3 sessions plus an observer, mailboxes INBOX/A/B; 6-28 steps '
            'of APPEND (1-3 messages)/COPY/MOVE into any mailbox, "flag the '
            'highest \\Deleted then EXPUNGE" followed by further adds, '
            'SELECT/STATUS, several sessions per step (concurrent '
            'appenders), on maildir in 30% of the steps a delivery agent '
            'dropping a file into new/ or cur/ at a scheduler position '
            'inside the step, and quiet RENAME / DELETE+CREATE steps. A '
            'STATUS/SELECT answered inside a step must report a UIDNEXT '
            'above (highest UID before the step) + (messages it counts '
            'beyond those that existed before the step). After every '
            'step the observer takes STATUS (UIDNEXT UIDVALIDITY MAILBOXID) '
            'and a dump with tokens of every mailbox. Oracle per (MAILBOXID, '
            'UIDVALIDITY): dumps ascending and duplicate-free; a UID never '
            'denotes two tokens over the whole history; every new UID is '
            'above everything assigned before the step and not below any '
            'UIDNEXT reported earlier; UIDNEXT above every UID ever '
            'assigned; APPENDUID/COPYUID count, order and token pairing; '
            'non-overlapping operations of one step get increasing UIDs. '
            'Non-trivial = >= 3 UIDs attributed to response codes.')
    assumptions = C01.assumptions + [
        'mailbox identity is the OBJECTID MAILBOXID reported by STATUS',
        'the maildir restart-after-crash part of the quantifier: 12% of the '
        'cases are crash-image histories (C15\'s engine: an image before '
        'every mutating file-system operation and at the clean stop, a '
        'brand-new backend on each), judged for UIDs only: UIDNEXT above '
        'every UID present, one more APPEND per mailbox gets a UID above '
        'every UID ever acknowledged in that UIDVALIDITY and not below the '
        'UIDNEXT just reported']
    components = C01.components

    def gen(self, rng, tier):
        from .common import backends, finish_cfg
        bk = backends(self.BACKENDS)
        if 'maildir' in bk and rng.random() < 0.12:
            # the restart part of the quantifier: C15's crash-image engine,
            # judged for UIDs (a new backend on every image reports UIDNEXT
            # and stores one more message per mailbox)
            from .c15 import gen_crash_case
            case = gen_crash_case(rng, tier)
            case['family'] = 'crash'
            return case
        return finish_cfg(gen_uid_case(rng, tier, backends=bk), rng)

    def run(self, case, trace=False):
        if case.get('family') == 'crash':
            from .c15 import run_crash
            return run_crash(case, trace, prop='C04')
        return run_uids(case, trace)


PROFILE = C04()
