"""C17 - \\Recent is announced to exactly one session and never stored."""

from __future__ import annotations

import random

from sim.driver import Profile
from sim.shadow import canon_flag
from sim.engine import make_message
from .c01 import C01, run_concurrent
from .common import (USER, Tokens, flag_list, maybe_seed, pick_buggify,
                     seq_set, uid_set)

RECENT = b'\\Recent'


def _msgs(rng, tokens, n, recent_p=0.25):
    out = []
    for _ in range(n):
        tok = tokens.take()
        m = {'data': make_message(tok), 'token': tok}
        r = rng.random()
        if r < recent_p:
            m['flags'] = ['\\Recent'] + flag_list(rng, allow_recent=False)
        elif r < 0.6:
            m['flags'] = flag_list(rng, allow_recent=False)
        out.append(m)
    return out


def gen_recent_case(rng: random.Random, tier: str, backends=('dict',)) -> dict:
    n = rng.randint(1, 3)          # sessions that select INBOX
    deliverer = n                  # never selects INBOX
    tokens = Tokens()
    cfg = {'backend': rng.choice(backends), 'users': [USER],
           'buggify': pick_buggify(rng),
           'buggify_p': rng.choice([0.1, 0.3, 0.6])}
    login = {'kind': 'login', 'user': USER['name'],
             'password': USER['password']}
    steps = [{'actions': [{'sess': i, 'kind': 'connect'}
                          for i in range(n + 1)], 'sched_seed': None},
             {'actions': [dict(login, sess=i) for i in range(n + 1)],
              'sched_seed': None},
             {'actions': [{'sess': deliverer, 'kind': 'create',
                           'mailbox': 'Other'}], 'sched_seed': None},
             {'actions': [{'sess': deliverer, 'kind': 'append',
                           'mailbox': 'Other', 'literal': 'litplus',
                           'msgs': _msgs(rng, tokens, rng.randint(1, 3))}],
              'sched_seed': None},
             # half of the deliverers only EXAMINE their source, whose
             # messages then keep the stored recent marker while they are
             # copied into INBOX
             {'actions': [{'sess': deliverer,
                           'kind': rng.choice(['select', 'examine']),
                           'mailbox': 'Other'}], 'sched_seed': None}]
    state = {i: 'none' for i in range(n)}   # none | rw | ro | gone
    todo: dict[int, list] = {i: [] for i in range(n)}
    for _ in range(rng.randint(6, 30)):
        acts = []
        k = rng.choice([1, 1, 2, 2, 3])
        actors = rng.sample(range(n + 1), min(k, n + 1))
        for sess in actors:
            if sess == deliverer:
                r = rng.random()
                if r < 0.6:
                    acts.append({'sess': sess, 'kind': 'append',
                                 'mailbox': 'INBOX',
                                 'literal': rng.choice(['lit', 'litplus']),
                                 'msgs': _msgs(rng, tokens,
                                               rng.choice([1, 1, 2]))})
                elif r < 0.85:
                    acts.append({'sess': sess,
                                 'kind': rng.choice(['copy', 'copy', 'move']),
                                 'uid': False, 'set': seq_set(rng, 3),
                                 'mailbox': 'INBOX'})
                else:
                    acts.append({'sess': sess, 'kind': 'append',
                                 'mailbox': 'Other', 'literal': 'litplus',
                                 'msgs': _msgs(rng, tokens, 1)})
                continue
            if todo[sess]:
                acts.append(dict(todo[sess].pop(0), sess=sess))
                continue
            st = state[sess]
            if st == 'gone':
                acts.append({'sess': sess, 'kind': 'connect'})
                todo[sess] = [dict(login)]
                state[sess] = 'none'
                continue
            r = rng.random()
            if st == 'none' or r < 0.15:
                kind = 'select' if rng.random() < 0.75 else 'examine'
                acts.append({'sess': sess, 'kind': kind, 'mailbox': 'INBOX'})
                state[sess] = 'rw' if kind == 'select' else 'ro'
                todo[sess] = [
                    {'kind': 'fetch', 'uid': False, 'set': '1:*',
                     'attrs': ['UID', 'FLAGS'], 'post_select': True},
                    {'kind': 'search', 'uid': True, 'keys': 'RECENT'}]
            elif r < 0.24:
                acts.append({'sess': sess, 'kind': 'close'})
                state[sess] = 'none'
            elif r < 0.27:
                # leave INBOX by selecting something else, or by a SELECT
                # that fails (which must deselect as well)
                acts.append({'sess': sess, 'kind': rng.choice(
                    ['select', 'examine']), 'mailbox': rng.choice(
                        ['Missing', 'Missing', 'Other'])})
                state[sess] = 'none'
            elif r < 0.33:
                acts.append({'sess': sess, 'kind': rng.choice(
                    ['reset', 'logout'])})
                state[sess] = 'gone'
            elif r < 0.5:
                acts.append({'sess': sess, 'kind': 'append',
                             'mailbox': 'INBOX', 'literal': 'litplus',
                             'msgs': _msgs(rng, tokens, 1)})
            elif r < 0.6:
                # (MOVE into the selected mailbox itself: a new UID for the
                # same file, the message arrives a second time)
                # (only session 0 moves: two sessions moving the same
                # message within its own mailbox at the same instant are
                # both given the new UID - MOVE is outside the property's
                # alphabet and that race is not judged, see DESIGN.md)
                acts.append({'sess': sess,
                             'kind': rng.choice(['copy', 'copy', 'move'])
                             if sess == 0 else 'copy',
                             'uid': rng.random() < 0.3,
                             'set': seq_set(rng, 4),
                             'mailbox': 'INBOX'})
                if acts[-1]['uid']:
                    acts[-1]['set'] = uid_set(rng, 101, 108)
            elif r < 0.75:
                acts.append({'sess': sess, 'kind': 'store',
                             'uid': rng.random() < 0.4,
                             'set': rng.choice([seq_set(rng, 5),
                                                uid_set(rng, 101, 108)]),
                             'op': rng.choice(['+', '-', '']),
                             'flags': ['\\Recent'] + (
                                 flag_list(rng, allow_recent=False)
                                 if rng.random() < 0.4 else []),
                             'silent': rng.random() < 0.2})
                if acts[-1]['uid']:
                    acts[-1]['set'] = uid_set(rng, 101, 108)
                else:
                    acts[-1]['set'] = seq_set(rng, 5)
            elif r < 0.85:
                acts.append({'sess': sess, 'kind': 'fetch', 'uid': False,
                             'set': '1:*', 'attrs': ['UID', 'FLAGS']})
            elif r < 0.92:
                acts.append({'sess': sess, 'kind': 'noop'})
            else:
                acts.append({'sess': sess, 'kind': 'expunge'})
        if cfg['backend'] == 'maildir' and rng.random() < 0.2:
            tok = tokens.take()
            acts.append({'kind': 'deliver', 'mailbox': 'INBOX',
                         'data': make_message(tok), 'token': tok,
                         'subdir': rng.choice(['new', 'new', 'cur']),
                         'at': rng.choice([0, rng.randint(1, 60)])})
        steps.append({'actions': acts, 'sched_seed': maybe_seed(rng, 0.3)})
    # final: everyone still selected refreshes its view
    steps.append({'actions': [{'sess': i, 'kind': 'fetch', 'uid': False,
                               'set': '1:*', 'attrs': ['UID', 'FLAGS']}
                              for i in range(n)], 'sched_seed': None})
    return {'config': cfg, 'steps': steps, 'n_select': n}


def check_counts(ctx) -> None:
    """RECENT count told to a read-write session == slots it sees \\Recent."""
    for sid, cl in ctx.clients.items():
        sh = cl.shadow
        if sh.selected is None or sh.selected['readonly'] or cl.pending \
                or cl.conn.done or cl.conn.held:
            continue
        if sh.recent_count is None or any(sl.flags is None
                                          for sl in sh.slots):
            continue
        ctx.stat('recent_counts_compared')
        have = sum(1 for sl in sh.slots if RECENT in sl.flags)
        if have != sh.recent_count:
            ctx.violate('C17', 'recent-count', 'session %d was told RECENT '
                        '%d but sees %d messages flagged \\Recent'
                        % (sid, sh.recent_count, have), session=sid)


def check_exclusive(ctx) -> None:
    seen: dict = {}
    for cl in ctx.all_clients:
        sid = cl.sid
        for slot, sel in cl.shadow.recent_seen:
            if slot.uid is None or sel['readonly']:
                continue
            key = (sel['mailbox'], sel['uidvalidity'], slot.uid)
            seen.setdefault(key, set()).add((sid, id(cl) % 100000,
                                             sel['incarnation']))
    ctx.stat('recent_uids_tracked', len(seen))
    for key, who in sorted(seen.items()):
        if len(who) > 1:
            ctx.violate('C17', 'recent-twice', 'UID %d of %s was reported '
                        '\\Recent to %d read-write selections: %s'
                        % (key[2], key[0], len(who), sorted(who)))
            return


def check_readonly_consume(ctx) -> None:
    """A read-only selection that is shown \\Recent for a message has not
    consumed it: some read-write selection is shown it too.  Decided only
    when every read-write selection alive after that moment (the fresh one
    opened at the end included) reported the message's flags afterwards."""
    end_of_time = ctx.world.seq + 1
    ro_seen: dict = {}          # uid -> first tick a read-only sel saw it
    rw_obs: dict = {}           # id(sel) -> {uid: [(tick, recent)]}
    rw_sels = []
    for cl in ctx.all_clients:
        for sel in cl.shadow.sel_log:
            if sel['mailbox'] == 'INBOX' and not sel['readonly']:
                rw_sels.append(sel)
        for sel, slot, recent, tick in cl.shadow.flag_obs:
            if sel.get('mailbox') != 'INBOX' or slot.uid is None:
                continue
            if sel['readonly']:
                if recent and (slot.uid not in ro_seen
                               or tick < ro_seen[slot.uid]):
                    ro_seen[slot.uid] = tick
            else:
                rw_obs.setdefault(id(sel), {}).setdefault(
                    slot.uid, []).append((tick, recent))
    for uid, t0 in sorted(ro_seen.items()):
        anyone = False
        conclusive = True
        for sel in rw_sels:
            obs = rw_obs.get(id(sel), {}).get(uid, [])
            if any(r for _, r in obs):
                anyone = True
                break
            if (sel['end'] or end_of_time) < t0:
                continue        # gone before, and never saw it
            if not any(t > t0 for t, _ in obs):
                conclusive = False
        if anyone or not conclusive or not rw_sels:
            continue
        if not any((sel['end'] or end_of_time) >= t0 for sel in rw_sels):
            continue
        ctx.stat('readonly_recent_checked')
        ctx.violate('C17', 'recent-consumed-readonly', 'UID %d was shown '
                    '\\Recent to a read-only selection and to no read-write '
                    'selection, not even the one opened at the end' % uid)
        return


def check_first_select(ctx) -> None:
    """A message that arrived while nobody had INBOX selected read-write is
    \\Recent for the first read-write SELECT after it (unambiguous cases
    only: no overlapping selections)."""
    sels = []
    for cl in ctx.all_clients:
        for sel in cl.shadow.sel_log:
            sel['client'] = cl
            if sel['mailbox'] == 'INBOX' and not sel['readonly']:
                sels.append(sel)
    end_of_time = ctx.world.seq + 1
    # also selections in flight / failed count as "maybe selected"
    maybe = []
    for cl in ctx.all_clients:
        for cmd in cl.history:
            if cmd.kind == 'select' and cmd.action.get('mailbox') == 'INBOX':
                maybe.append((cmd.seq_invoke, cmd.seq_return or end_of_time))
    arrivals = []
    for step, sid, cmd in ctx.started:
        if cmd is None or not cmd.ok or cmd.kind not in ('append', 'copy',
                                                         'move'):
            continue
        if cmd.action.get('mailbox') != 'INBOX':
            continue
        code = cmd.result.code
        if cmd.kind == 'move':
            codes = [r.code for r in cmd.untagged if r.kind == 'cond'
                     and r.code and r.code[0] == b'COPYUID']
            code = codes[0] if codes else None
        if not code or code[0] not in (b'APPENDUID', b'COPYUID'):
            continue
        uids = code[1][1] if code[0] == b'APPENDUID' else code[1][2]
        arrivals.append((cmd.seq_invoke, cmd.seq_return, uids))
    # files the delivery agent dropped into new/: their UIDs are read from
    # the folder's UID list by file name (not by content: a COPY of the
    # delivered message back into INBOX carries the same bytes)
    dropped = [d for d in getattr(ctx.world, 'deliveries', ())
               if d['mailbox'] == 'INBOX' and d['subdir'] == 'new']
    if dropped:
        by_file = ctx.world.uid_by_file('INBOX')
        for d in dropped:
            uid = by_file.get(d['file'].split(':', 1)[0])
            if uid is not None:
                arrivals.append((d['seq'], d['seq'], [uid]))
                ctx.stat('deliveries_judged')
    for a0, a1, uids in arrivals:
        if any(s['start_inv'] <= a1 and (s['end'] or end_of_time) >= a0
               for s in sels):
            continue
        if any(m0 <= a1 and m1 >= a0 for m0, m1 in maybe):
            continue
        later = sorted((s for s in sels if s['start_inv'] > a1),
                       key=lambda s: s['start_inv'])
        if not later:
            continue
        first = later[0]
        if any(s is not first and s['start_inv'] <= first['start_ret']
               and (s['end'] or end_of_time) >= first['start_inv']
               for s in sels):
            continue
        if any(m0 <= first['start_ret'] and m1 >= first['start_inv']
               and m0 != first['start_inv'] for m0, m1 in maybe):
            continue
        # the first selection's post-select FETCH 1:* (UID FLAGS)
        cl = first['client']
        fetch = None
        for c in cl.history:
            if c.kind == 'fetch' and c.action.get('post_select') \
                    and c.seq_invoke > first['start_ret'] and c.ok \
                    and (first['end'] is None
                         or c.seq_return <= first['end']):
                fetch = c
                break
        if fetch is None:
            continue
        flags_by_uid = {r.data[b'UID']: r.data.get(b'FLAGS') or []
                        for r in fetch.untagged
                        if r.name == b'FETCH' and b'UID' in r.data}
        for uid in uids:
            if uid not in flags_by_uid:
                continue
            ctx.stat('first_select_checked')
            if RECENT not in {canon_flag(f) for f in flags_by_uid[uid]}:
                ctx.violate('C17', 'recent-lost', 'UID %d arrived while no '
                            'session had INBOX selected, but the first '
                            'read-write SELECT (session %d) did not see it '
                            '\\Recent' % (uid, first['sid']))
                return


class C17(Profile):
    id = 'C17'
    BACKENDS = ('dict', 'dict', 'dict', 'maildir')
    level = 'exploration'
    quick_budget_s = 40.0
    thorough_budget_s = 420.0
    batch = 25
    rule = ('1-3 sessions doing SELECT/EXAMINE/CLOSE/reselect/disconnect on '
            'INBOX (each SELECT followed by FETCH 1:* (UID FLAGS) and UID '
            'SEARCH RECENT) while a deliverer that never selects INBOX and '
            'the sessions themselves APPEND/COPY/MOVE into it (flag lists may '
            'name \\Recent) and STORE +/-/= \\Recent; 6-30 steps, up to 3 '
            'sessions per step; weak-set (any_selected) order permuted; at '
            'the end a fresh session SELECTs read-write and fetches all '
            'flags (a message shown \\Recent only to read-only selections '
            'was consumed by one). '
            'Non-trivial = two or more sessions with commands in flight in '
            'one step.')
    assumptions = C01.assumptions + [
        'gc.collect() runs when a connection ends; between those points only '
        'reference counting frees per-connection server objects',
        'first-select clause is asserted only when no other selection '
        'overlaps the arrival or the first SELECT (event sequence numbers)']
    components = C01.components

    def gen(self, rng, tier):
        from .common import backends, finish_cfg
        return finish_cfg(gen_recent_case(
            rng, tier, backends=backends(self.BACKENDS)), rng)

    def run(self, case, trace=False):
        def after(ctx, i, step, cmds):
            check_counts(ctx)

        def at_end(ctx):
            # one more read-write SELECT by a fresh session: whatever is
            # still unclaimed shows up here
            last = 50
            ctx.quiesce()
            for act in ({'kind': 'connect'},
                        {'kind': 'login', 'user': USER['name'],
                         'password': USER['password']},
                        {'kind': 'select', 'mailbox': 'INBOX'},
                        {'kind': 'fetch', 'uid': False, 'set': '1:*',
                         'attrs': ['UID', 'FLAGS'], 'post_select': True}):
                ctx.run_step({'actions': [dict(act, sess=last)],
                              'sched_seed': None}, len(case['steps']))
            check_exclusive(ctx)
            check_first_select(ctx)
            check_readonly_consume(ctx)
            dump = ctx.probe('INBOX')
            if dump:
                for uid, rec in dump['msgs'].items():
                    if RECENT in {canon_flag(f) for f in rec['flags']}:
                        ctx.violate('C17', 'recent-stored', 'read-only probe '
                                    'sees \\Recent as a flag of UID %d' % uid)
                        break
        return run_concurrent(case, 'C17', trace, after_step=after,
                              at_end=at_end)


PROFILE = C17()
