"""C09 - authentication and authorization are sound."""

from __future__ import annotations

import base64
import random

from sim.client import s
from sim.driver import Profile
from sim.engine import Ctx, Violation
from sim.sieve import SieveClient, sieve_string
from .c01 import C01

USERS = [{'name': 'alice', 'password': 'alicepw'},
         {'name': 'root', 'password': 'rootpw', 'roles': ['admin']},
         {'name': 'carol', 'password': 'carolpw'},
         {'name': 'ghost', 'password': 'x', 'disabled': True}]
SECRETS = {u['name']: u['password'] for u in USERS if not u.get('disabled')}
ADMINS = {'root'}
EXISTING = {u['name'] for u in USERS}
NAMES = ['alice', 'root', 'carol', 'ghost', 'nobody', '', 'ALICE', 'alice ',
         'alîce']
PASSWORDS = ['alicepw', 'rootpw', 'carolpw', 'x', '', 'wrong', 'alicepw ',
             'ALICEPW', 'p' * 300, 'é']


OTHER_MECHS = ['EXTERNAL', 'XOAUTH2', 'OAUTHBEARER', 'CRAM-MD5', 'ANONYMOUS',
               'GSSAPI', 'DIGEST-MD5', 'SCRAM-SHA-1', 'NTLM', 'X', 'PLAIN2',
               'LOGIN-', 'PLAINLOGIN', 'AUTH=PLAIN', '""']


def b64(raw: bytes) -> str:
    return base64.b64encode(raw).decode()


def gen_attempt(rng: random.Random) -> dict:
    how = rng.choice(['login', 'login', 'plain', 'plain', 'plain',
                      'loginmech'])
    r = rng.random()
    if r < 0.45:
        user = rng.choice(['alice', 'root', 'carol'])
        password = SECRETS[user]
    elif r < 0.7:
        user = rng.choice(NAMES)
        password = rng.choice(PASSWORDS)
    else:
        user = rng.choice(['alice', 'root', 'carol'])
        password = rng.choice(PASSWORDS)
    att = {'how': how, 'user': user, 'password': password, 'authzid': ''}
    if rng.random() < 0.1:
        # a mechanism the server does not offer, carrying credentials that
        # may well be valid: never a way in
        att['how'] = how = 'othermech'
        att['mech'] = rng.choice(OTHER_MECHS)
    if how == 'plain' and rng.random() < 0.5:
        att['authzid'] = rng.choice(['alice', 'root', 'carol', 'nobody',
                                     user, 'ghost'])
    if how != 'login':
        r = rng.random()
        if r < 0.08:
            att['malformed'] = 'b64'
        elif r < 0.16:
            att['malformed'] = 'cancel'
        elif r < 0.22:
            att['malformed'] = 'nonul'
        elif r < 0.27:
            att['malformed'] = 'empty'
        elif r < 0.31:
            att['fault'] = rng.choice(['eof', 'reset'])
    return att


def gen_auth_case(rng: random.Random, tier: str, backends=('dict',)) -> dict:
    cfg = {'backend': rng.choice(backends), 'users': USERS,
           'tls': rng.random() < 0.5, 'bad_command_limit': 0,
           'invalid_user_sleep': 0.3}
    proto = 'imap' if rng.random() < 0.7 else 'sieve'
    # (ManageSieve on maildir: one script per user, named "active"; the
    # identity reveal reads its content instead of the listing)
    peer = rng.choice(['1.2.3.4', '127.0.0.1'])
    attempts = [gen_attempt(rng) for _ in range(rng.randint(1, 6))]
    steps = []
    if cfg['tls'] and rng.random() < 0.5:
        steps.append({'starttls': True})
    for att in attempts:
        steps.append({'attempt': att})
        if cfg['tls'] and rng.random() < 0.15:
            steps.append({'starttls': True})
        if proto == 'sieve' and rng.random() < 0.35:
            # back to the unauthenticated state on the same connection:
            # whatever the earlier success left behind must not help the
            # next attempt
            steps.append({'unauth': True})
    return {'config': cfg, 'proto': proto, 'peer': peer, 'steps': steps}


def model_success(att: dict) -> tuple[bool, str | None]:
    """(authenticated?, identity) if the mechanism is available."""
    if att.get('malformed') or att.get('fault') or \
            att.get('how') == 'othermech':
        return False, None
    user, password = att['user'], att['password']
    if SECRETS.get(user) is None or SECRETS[user] != password:
        return False, None
    authzid = att.get('authzid') or user
    if authzid != user and user not in ADMINS:
        return False, None
    if authzid not in EXISTING:
        return False, None
    return True, authzid


def plain_response(att: dict) -> str:
    raw = ('%s\0%s\0%s' % (att.get('authzid', ''), att['user'],
                           att['password'])).encode('utf-8')
    m = att.get('malformed')
    if m == 'b64':
        return '!!notbase64!!'
    if m == 'cancel':
        return '*'
    if m == 'nonul':
        return b64(('%s %s' % (att['user'], att['password'])).encode())
    if m == 'empty':
        return ''
    return b64(raw)


def run_imap(case: dict, trace: bool) -> dict:
    ctx = Ctx(case, trace=trace)
    tls = bool(case['config'].get('tls'))
    local = case['peer'] == '127.0.0.1'
    attempts = 0
    try:
        # marker mailboxes through local set-up connections
        for i, u in enumerate(USERS):
            if u.get('disabled'):
                continue
            sid = 20 + i
            ctx.run_step({'actions': [{'sess': sid, 'kind': 'connect',
                                       'peer': '127.0.0.1'}]}, -1)
            for act in ({'kind': 'login', 'user': u['name'],
                         'password': u['password']},
                        {'kind': 'create', 'mailbox': 'box-' + u['name']},
                        {'kind': 'logout'}):
                ctx.run_step({'actions': [dict(act, sess=sid)]}, -1)
        ctx.run_step({'actions': [{'sess': 29, 'kind': 'connect',
                                   'peer': '127.0.0.1'}]}, -1)
        for act in ({'kind': 'authenticate', 'mech': 'PLAIN', 'responses': [
                b64(b'ghost\0root\0rootpw')]},
                {'kind': 'create', 'mailbox': 'box-ghost'},
                {'kind': 'logout'}):
            ctx.run_step({'actions': [dict(act, sess=29)]}, -1)
        ctx.run_step({'actions': [{'sess': 0, 'kind': 'connect',
                                   'peer': case['peer']}]}, -1)
        cl = ctx.clients[0]
        state = {'auth': None, 'tls_done': False}

        def do(action, horizon=2.0):
            cmds = ctx.run_step({'actions': [dict(action, sess=0)],
                                 'horizon': horizon}, ctx.step_index)
            return cmds[0]

        def reveal():
            if cl.conn.done or cl.conn.client_reset or cl.conn.inbox_eof:
                return 'closed'
            c = do({'kind': 'list', 'ref': '', 'pattern': '*'})
            if c is None or c.result is None:
                return 'closed' if cl.conn.done else 'silent'
            if not c.ok:
                return None
            marks = []
            for r in c.untagged:
                if r.name == b'LIST':
                    nm = bytes(r.data[2])
                    if nm.startswith(b'box-'):
                        marks.append(nm[4:].decode())
            return marks[0] if len(marks) == 1 else 'marks=%r' % marks

        for i, step in enumerate(case['steps']):
            ctx.step_index = i
            if cl.conn.done or cl.conn.client_reset or cl.conn.inbox_eof:
                break
            if step.get('starttls'):
                c = do({'kind': 'starttls'})
                if c is not None and c.ok:
                    state['tls_done'] = True
                    do({'kind': 'capability'})   # cached capabilities are void
                continue
            att = step['attempt']
            attempts += 1
            mech_ok = (not tls) or local or state['tls_done']
            caps = cl.last_capability or []
            how = att['how']
            before = state['auth']
            if how == 'login':
                c = do({'kind': 'login', 'user': att['user'],
                        'password': att['password'],
                        'spelling': 'quoted' if att['user'] == '' or
                        att['password'] == '' else 'auto'})
            else:
                mech = 'PLAIN' if how == 'plain' else 'LOGIN'
                if how == 'othermech':
                    mech = att['mech']
                    responses = [plain_response(att),
                                 b64(att['password'].encode('utf-8')), '*']
                elif how == 'plain':
                    responses = [plain_response(att)]
                else:
                    responses = [b64(att['user'].encode('utf-8')),
                                 b64(att['password'].encode('utf-8'))]
                    m = att.get('malformed')
                    if m == 'b64':
                        responses[1] = '%%%'
                    elif m == 'cancel':
                        responses[rand_index(att)] = '*'
                    elif m == 'empty':
                        responses = ['', '']
                action = {'kind': 'authenticate', 'mech': mech,
                          'responses': responses}
                if att.get('fault'):
                    # drop the connection while the server waits for data
                    action['responses'] = []
                    c = do(action)
                    ctx.run_step({'actions': [{'sess': 0,
                                               'kind': att['fault']}]}, i)
                    ctx.stat('fault_' + att['fault'])
                    continue
                c = do(action)
            if c is None:
                continue
            cond = c.cond
            want_ok, ident = model_success(att)
            if how == 'loginmech' and att.get('malformed') == 'nonul':
                want_ok, ident = model_success(dict(att, malformed=None))
            what = 'attempt %d %s user=%r pw=%r authzid=%r %s' % (
                attempts, how, att['user'], att['password'],
                att.get('authzid'), att.get('malformed') or '')
            if cond is None:
                if not cl.conn.done:
                    ctx.violate('C09', 'unanswered', what)
                break
            if before is not None:
                if cond == 'OK':
                    ctx.violate('C09', 'reauth', '%s: accepted although '
                                'already authenticated as %s'
                                % (what, before))
                    break
            elif how == 'login' and b'LOGINDISABLED' in caps:
                if cond == 'OK':
                    ctx.violate('C09', 'logindisabled', '%s: LOGIN accepted '
                                'while LOGINDISABLED is advertised' % what)
                    break
                if cond != 'NO':
                    ctx.stat('logindisabled_not_no')
            elif not mech_ok:
                if cond == 'OK':
                    ctx.violate('C09', 'no-tls', '%s: accepted before '
                                'STARTTLS from a remote peer' % what)
                    break
            elif want_ok:
                acting_as_other = ident != att['user']
                if cond != 'OK' and acting_as_other:
                    # refusing an admin's request to act as someone else is
                    # not unsound (the maildir backend does)
                    ctx.stat('admin_authzid_refused')
                elif cond != 'OK':
                    ctx.violate('C09', 'rejected', '%s: valid credentials '
                                'answered %s %r' % (what, cond,
                                                    c.result.text))
                    break
                else:
                    state['auth'] = ident
            elif cond == 'OK':
                ctx.violate('C09', 'accepted', '%s: answered OK' % what)
                break
            seen = reveal()
            ctx.stat('reveals')
            if seen in ('closed', 'silent'):
                if seen == 'silent':
                    ctx.violate('C09', 'unanswered', '%s: LIST unanswered '
                                'afterwards' % what)
                break
            if seen != state['auth']:
                ctx.violate('C09', 'identity', '%s answered %s: connection '
                            'acts as %r, model says %r'
                            % (what, cond, seen, state['auth']))
                break
        ctx.finish()
        res = ctx.result()
        res['violations'] = [v for v in res['violations']
                             if v['property'] == 'C09']
        res['nontrivial'] = attempts >= 1
        res['stats']['attempts'] = attempts
        if trace:
            res['trace'] = ctx.world.trace
        return res
    finally:
        ctx.close()


def rand_index(att: dict) -> int:
    return len(att['user']) % 2


def run_sieve(case: dict, trace: bool) -> dict:
    from sim.world import World
    world = World(case['config'], seed=int(case.get('seed', 0)), trace=trace)
    violations: list = []
    attempts = 0
    tls = bool(case['config'].get('tls'))
    local = case['peer'] == '127.0.0.1'
    backend = case['config'].get('backend', 'dict')
    single = backend == 'maildir'

    def violate(clause, detail):
        violations.append(Violation(property='C09', clause=clause,
                                    detail=detail,
                                    sig={'backend': backend, 'proto': 'sieve'},
                                    step=attempts, seq=world.seq))
    try:
        for u in USERS:
            if u.get('disabled'):
                continue
            sc = SieveClient(world, 30)
            world.run(0.5, None, [])
            if tls:
                sc.command(b'STARTTLS\r\n')
                world.run(0.5, None, [])
            sc.command(SieveClient.plain(u['name'], u['password']))
            if single:
                sc.command(b'PUTSCRIPT "active" "# mark-' +
                           u['name'].encode() + b'"\r\n')
            else:
                sc.command(b'PUTSCRIPT "mark-' + u['name'].encode() +
                           b'" "keep;"\r\n')
            sc.command(b'LOGOUT\r\n')
        cl = SieveClient(world, 0, case['peer'])
        world.run(0.5, None, [])
        state = {'auth': None, 'tls_done': False}

        def reveal():
            if single:
                r = cl.command(b'GETSCRIPT "active"\r\n')
                if r is None:
                    return 'closed'
                if not r.ok:
                    # NO before authentication; after it the script exists
                    r2 = cl.command(b'LISTSCRIPTS\r\n')
                    if r2 is None:
                        return 'closed'
                    return 'no-script' if r2.ok else None
                body = b''.join(bytes(t) for line in r.lines for t in line)
                return body[7:].decode() if body.startswith(b'# mark-') \
                    else 'script=%r' % body
            r = cl.command(b'LISTSCRIPTS\r\n')
            if r is None:
                return 'closed'
            if not r.ok:
                return None
            marks = [bytes(line[0])[5:].decode() for line in r.lines
                     if bytes(line[0]).startswith(b'mark-')]
            return marks[0] if len(marks) == 1 else 'marks=%r' % marks

        for step in case['steps']:
            if cl.conn.done or violations:
                break
            if step.get('starttls'):
                r = cl.command(b'STARTTLS\r\n')
                if r is not None and r.ok:
                    state['tls_done'] = True
                    world.run(0.5, None, [])
                continue
            if step.get('unauth'):
                r = cl.command(b'UNAUTHENTICATE\r\n')
                if r is None:
                    if not cl.conn.done:
                        violate('unanswered', 'UNAUTHENTICATE unanswered')
                    break
                if r.ok:
                    state['auth'] = None
                elif state['auth'] is not None:
                    violate('unauth', 'UNAUTHENTICATE while authenticated '
                            'as %s answered %r' % (state['auth'], r))
                seen = reveal()
                if seen == 'closed':
                    break
                if seen != state['auth']:
                    violate('identity', 'after UNAUTHENTICATE the connection '
                            'acts as %r, model says %r' % (seen, state['auth']))
                continue
            att = step['attempt']
            attempts += 1
            # the ManageSieve listener has no localhost exception
            mech_ok = (not tls) or state['tls_done']
            how = att['how']
            if att.get('fault'):
                continue
            if how == 'loginmech':
                r = cl.command(b'AUTHENTICATE "LOGIN"\r\n')
                for val in (att['user'], att['password']):
                    if r is None or r.cond:
                        pass
                    data = b64(val.encode('utf-8')).encode()
                    if att.get('malformed') == 'cancel':
                        data = b'*'
                    elif att.get('malformed') == 'b64':
                        data = b'%%%'
                    elif att.get('malformed') == 'empty':
                        data = b''
                    r = cl.command(sieve_string(data, 'quoted') + b'\r\n')
                    if r is not None:
                        break
                if r is None:
                    # still waiting: finish the exchange
                    r = cl.command(b'"*"\r\n')
            elif how == 'othermech':
                r = cl.command(b'AUTHENTICATE ' + sieve_string(
                    att['mech'].strip('"').encode(), 'quoted') + b' ' +
                    sieve_string(plain_response(att).encode(), 'quoted') +
                    b'\r\n')
                if r is None:
                    r = cl.command(b'"*"\r\n')
            else:
                resp = plain_response(att).encode()
                if att.get('malformed') == 'cancel':
                    r = cl.command(b'AUTHENTICATE "PLAIN"\r\n')
                    r = cl.command(b'"*"\r\n')
                else:
                    r = cl.command(b'AUTHENTICATE "PLAIN" ' +
                                   sieve_string(resp, 'quoted') + b'\r\n')
            if r is None:
                if not cl.conn.done:
                    violate('unanswered', 'sieve attempt %d unanswered: %r'
                            % (attempts, att))
                break
            eff = att
            if how == 'loginmech' and att.get('malformed') == 'nonul':
                eff = dict(att, malformed=None)   # no NULs in this mechanism
            want_ok, ident = model_success(eff)
            att = eff
            if want_ok:
                ident = att['user']     # ManageSieve ignores the authzid
            elif not att.get('malformed') and how != 'othermech' and \
                    SECRETS.get(att['user']) == att['password'] and \
                    att['user'] in SECRETS:
                want_ok, ident = True, att['user']
            what = 'sieve attempt %d %r' % (attempts, att)
            if state['auth'] is not None:
                if r.ok:
                    violate('reauth', '%s accepted while authenticated as %s'
                            % (what, state['auth']))
            elif not mech_ok:
                if r.ok:
                    violate('no-tls', '%s accepted before STARTTLS' % what)
            elif want_ok:
                if not r.ok:
                    violate('rejected', '%s: valid credentials answered %r'
                            % (what, r))
                else:
                    state['auth'] = ident
            elif r.ok:
                violate('accepted', '%s: answered OK' % what)
            if violations:
                break
            seen = reveal()
            if seen == 'closed':
                break
            if seen != state['auth']:
                violate('identity', '%s: connection acts as %r, model says '
                        '%r' % (what, seen, state['auth']))
        res = {'violations': violations, 'digest': world.digest(),
               'stats': {'attempts': attempts, 'sieve_cases': 1},
               'probes': dict(world.probes), 'fired': dict(world.fired),
               'moves': world.moves, 'sim_seconds': world.clock.now,
               'nontrivial': attempts >= 1}
        if trace:
            res['trace'] = world.trace
        return res
    finally:
        world.close()


class C09(Profile):
    id = 'C09'
    BACKENDS = ('dict', 'dict', 'dict', 'maildir')
    level = 'exploration'
    quick_budget_s = 40.0
    thorough_budget_s = 400.0
    batch = 25
    rule = ('users alice (no role), root (admin), carol, ghost (disabled) '
            'and absent names; 1-6 attempts per connection mixing LOGIN, '
            'AUTHENTICATE PLAIN (authzid in half of them) and AUTHENTICATE '
            'LOGIN with right/wrong/empty/300-character/non-ASCII secrets, '
            'malformed base64, "*" cancel, missing NULs, empty response, 10% '
            'through one of 15 mechanism names the server does not offer '
            '(EXTERNAL, XOAUTH2, CRAM-MD5, ...: never a way in), EOF '
            'or reset while the server waits; configurations TLS required '
            'or not x peer 127.0.0.1 or 1.2.3.4 x STARTTLS issued or not; '
            'IMAP (70%) and ManageSieve (30%, with UNAUTHENTICATE after 35% '
            'of the attempts: what an earlier success left on the '
            'connection must not help the next attempt; on maildir the '
            'identity is revealed by the content of the single "active" '
            'script); invalid_user_sleep left at '
            '0.3 s (virtual). After every attempt LIST "" * (LISTSCRIPTS) '
            'must be accepted iff the model says authenticated and the '
            'marker mailbox/script names the identity the model expects. '
            'Non-trivial = at least one attempt executed.')
    assumptions = C01.assumptions + [
        'authorization model: success iff the secret verifies for an '
        'existing enabled authcid and (authzid empty or equal, or authcid '
        'holds the admin role and the authzid user exists); ManageSieve '
        'ignores the authzid and acts as the authcid',
        'password hashing is BuiltinHash(sha1, rounds=1), the test suite\'s '
        'choice']
    components = dict(C01.components)

    def gen(self, rng, tier):
        from .common import backends, finish_cfg
        return finish_cfg(gen_auth_case(
            rng, tier, backends=backends(self.BACKENDS)), rng)

    def run(self, case, trace=False):
        if case.get('proto') == 'sieve':
            return run_sieve(case, trace)
        return run_imap(case, trace)


PROFILE = C09()
