"""C08 - mailbox names cannot reach outside the user's own mail store."""

from __future__ import annotations

import hashlib
import os
import random

from sim.client import s
from sim.driver import Profile
from sim.engine import Ctx, make_message
from .c01 import C01

ALICE = {'name': 'alice', 'password': 'alicepw'}
BOB = {'name': 'bob', 'password': 'bobpw'}

HOSTILE = ['', '.', '..', '...', '/', 'a/', '/a', 'a//b', '../x', '..\\x',
           '../bob', '../bob/cur', '../../x', '../pymap-etc-passwd',
           '../foreign', 'a/../../bob', './a', 'a/./b', 'a/..', '../alice',
           'x\x00y', 'a.b', '.a', 'a.', '..a', 'INBOX/..', 'INBOX/../..',
           'inbox/../bob', 'cur', 'new', 'tmp', 'cur/x', 'dovecot-uidlist',
           'maildirfolder', 'subscriptions', '.bob', 'bob', '~', '~bob',
           'C' * 300, 'é/..', '%2e%2e', '&AC4ALg-', '&AC8-', 'a\\..\\b',
           '../.bob', '.../...', '../bob/.Box', 'Box', 'Box/Sub', 'Box/..',
           '../bob/new', '/etc', '/dev/shm', '....', '. ', ' ..', '../',
           '..//bob', 'INBOX/', 'INBOX//', 'INBOX/.', 'inbox/', 'Inbox',
           'INBOX', 'INBOX/INBOX', '/INBOX', 'INBOX\\', 'Box/', 'Box//',
           'Box/Sub/', 'bob/', '../bob/', 'INBOX/Box', 'INBOX/ ', 'INBOX /',
           # look-alikes that a normalisation step would turn into . .. /
           '\u2025', '\u2025/bob', '\u2025/bob/cur', '\uff0e\uff0e/bob',
           '\u2024\u2024/bob', '.\uff0e/bob', '\uff0f' + 'etc',
           'a\uff0f../bob', '\uff0fdev\uff0fshm', 'Box/\u2025/\u2025/bob',
           '\u2215bob', '..\u2044bob', '\u2025\u2215bob', 'bo\u0062',
           '\u3002\u3002/bob', '\ufe52\ufe52/bob', '\u2026/bob',
           'Box/\uff0e\uff0e/\uff0e\uff0e/foreign', '\u2025/foreign',
           # names that a case mapping turns into INBOX
           '\u0131nbox', '\u0131NBOX', '\u0130NBOX', 'inbo\u03c7',
           '\uff29\uff2e\uff22\uff2f\uff38', 'INBOX\u200b', 'I\u0307NBOX',
           '\u0131nbox/', '\u0131nbox/Box']
PLAIN = ['Box', 'Box/Sub', 'Work', 'a', 'a/b']


def pick_name(rng: random.Random) -> str:
    r = rng.random()
    if r < 0.7:
        return rng.choice(HOSTILE)
    if r < 0.85:
        return rng.choice(PLAIN)
    parts = [rng.choice(['..', '.', 'a', 'bob', '', 'cur', 'x y', '...',
                         '.bob', 'alice', 'INBOX', 'Box'])
             for _ in range(rng.randint(1, 4))]
    return '/'.join(parts)


def gen_escape_case(rng: random.Random, tier: str,
                    backends=('maildir', 'maildir', 'maildir', 'dict')) -> dict:
    backend = rng.choice(backends)
    cfg = {'backend': backend, 'users': [ALICE, BOB],
           'layout': rng.choice(['++', 'fs']), 'bad_command_limit': 0,
           'buggify': []}
    steps = []
    for _ in range(rng.randint(3, 10)):
        kind = rng.choice(['create', 'delete', 'rename', 'select', 'examine',
                           'status', 'subscribe', 'unsubscribe', 'list',
                           'lsub', 'append', 'copy', 'move', 'create',
                           'delete', 'rename'])
        act = {'kind': kind, 'sess': 0,
               'spelling': rng.choice(['auto', 'quoted', 'litplus'])}
        name = pick_name(rng)
        if kind in ('list', 'lsub'):
            act['ref'] = rng.choice(['', name, name + '/'])
            act['pattern'] = rng.choice(['*', '%', name, '../*', '*/..',
                                         '../%', name + '/*'])
        elif kind == 'rename':
            if rng.random() < 0.5:
                act['mailbox'] = rng.choice(PLAIN + ['INBOX'])
                act['to'] = name
            else:
                act['mailbox'] = name
                act['to'] = rng.choice(PLAIN + HOSTILE)
        elif kind == 'append':
            act['mailbox'] = name
            act['msgs'] = [{'data': make_message(rng.randint(50, 99))}]
            act['literal'] = 'litplus'
        elif kind in ('copy', 'move'):
            act['set'] = '1:*'
            act['mailbox'] = name
        else:
            act['mailbox'] = name
        steps.append({'actions': [act], 'sched_seed': None})
    return {'config': cfg, 'steps': steps}


def tree_hash(path: str) -> str:
    h = hashlib.sha256()
    if not os.path.exists(path):
        return 'missing'
    if os.path.isfile(path):
        with open(path, 'rb') as fp:
            return hashlib.sha256(fp.read()).hexdigest()
    for root, dirs, files in os.walk(path):
        dirs.sort()
        for d in dirs:
            h.update(('D:' + os.path.relpath(os.path.join(root, d), path))
                     .encode('utf-8', 'surrogateescape'))
        for f in sorted(files):
            full = os.path.join(root, f)
            h.update(('F:' + os.path.relpath(full, path))
                     .encode('utf-8', 'surrogateescape'))
            try:
                with open(full, 'rb') as fp:
                    h.update(fp.read())
            except OSError:
                h.update(b'<unreadable>')
    return h.hexdigest()


def observe_user(ctx: Ctx, user: dict) -> dict:
    """What *user* sees: LIST plus a dump of INBOX and Box."""
    out = {}
    for name in ('INBOX', 'Box', 'Box/Sub'):
        d = ctx.probe(name, user=user)
        out[name] = None if d is None else [
            (u, tuple(sorted(r['flags'])), r['size'])
            for u, r in sorted(d['msgs'].items())]
    return out


def run_escape(case: dict, trace: bool = False) -> dict:
    ctx = Ctx(case, trace=trace)
    world = ctx.world
    fs = world.fs
    acted = 0
    try:
        # both users get some mail and a folder; bob is the bystander
        for sid, user in ((7, ALICE), (8, BOB)):
            ctx.run_step({'actions': [{'sess': sid, 'kind': 'connect'}]}, -1)
            for act in ({'kind': 'login', 'user': user['name'],
                         'password': user['password']},
                        {'kind': 'create', 'mailbox': 'Box'},
                        {'kind': 'create', 'mailbox': 'Box/Sub'},
                        {'kind': 'append', 'mailbox': 'INBOX',
                         'literal': 'litplus',
                         'msgs': [{'data': make_message(1)},
                                  {'data': make_message(2)}]},
                        {'kind': 'append', 'mailbox': 'Box',
                         'literal': 'litplus',
                         'msgs': [{'data': make_message(3)}]},
                        {'kind': 'logout'}):
                ctx.run_step({'actions': [dict(act, sess=sid)]}, -1)
        base = None
        foreign = None
        watched = {}
        if fs is not None:
            base = os.path.join(world.scratch, 'base')
            foreign = os.path.join(base, 'foreign')
            os.makedirs(os.path.join(foreign, 'cur'), exist_ok=True)
            with open(os.path.join(foreign, 'secret.txt'), 'w') as fp:
                fp.write('not yours\n')
            with open(os.path.join(foreign, 'cur', 'msg'), 'w') as fp:
                fp.write('Subject: foreign\n\nx\n')
            watched = {'bob': os.path.join(base, 'bob'), 'foreign': foreign}
            for f in sorted(os.listdir(base)):
                if f.startswith('pymap-etc-'):
                    watched[f] = os.path.join(base, f)
        before_hash = {k: tree_hash(p) for k, p in watched.items()}
        before_bob = observe_user(ctx, BOB)
        ctx.run_step({'actions': [{'sess': 0, 'kind': 'connect'}]}, -1)
        c = ctx.run_step({'actions': [{'sess': 0, 'kind': 'login',
                                       'user': 'alice',
                                       'password': 'alicepw'}]}, -1)[0]
        ctx.run_step({'actions': [{'sess': 0, 'kind': 'select',
                                   'mailbox': 'INBOX'}]}, -1)
        cl = ctx.clients[0]
        cid = cl.conn.cid
        mark = len(fs.log) if fs is not None else 0
        home = os.path.join(base, 'alice') if base else None
        for i, step in enumerate(case['steps']):
            ctx.step_index = i
            if cl.conn.done:
                break
            act = step['actions'][0]
            cmds = ctx.run_step(step, i)
            cl.pending.clear()
            acted += 1
            what = 'step %d %s %r%s' % (
                i, act['kind'].upper(),
                act.get('mailbox', act.get('ref')),
                ' -> %r' % act['to'] if 'to' in act else '')
            cond = cmds[0].cond if cmds and cmds[0] is not None else None
            # (1) the path monitor
            if fs is not None:
                for n, op, paths, who in fs.log[mark:]:
                    if who != cid:
                        continue
                    for k, p in enumerate(paths):
                        ap = os.path.normpath(os.path.abspath(p))
                        if ap in fs.temp_files or ap.startswith(
                                os.path.join(world.scratch, 'tmp') + os.sep):
                            continue
                        inside = ap == home or ap.startswith(home + os.sep)
                        strict = ap.startswith(home + os.sep)
                        destructive = op in ('remove', 'rmdir', 'rename')
                        if not inside or (destructive and not strict):
                            ctx.violate(
                                'C08', 'path-escape', '%s answered %s: %s(%s) '
                                'touches %s, outside alice\'s store %s'
                                % (what, cond, op, ', '.join(
                                    os.path.relpath(x, base) for x in paths),
                                   os.path.relpath(ap, base),
                                   os.path.relpath(home, base)),
                                sig={'layout': case['config'].get('layout'),
                                     'op': 'write' if op in (
                                         'remove', 'rmdir', 'rename', 'mkdir',
                                         'open-w', 'close-w', 'link', 'utime',
                                         'os.open-w') else 'read',
                                     'command': act['kind']})
                            break
                    if any(v['property'] == 'C08' for v in ctx.violations):
                        break
                mark = len(fs.log)
                for op, ap, who in fs.escapes:
                    ctx.violate('C08', 'path-escape', '%s: %s on %s outside '
                                'the whole scratch tree (blocked by the '
                                'harness)' % (what, op, ap),
                                sig={'layout': case['config'].get('layout'),
                                     'op': 'write-outside-sandbox',
                                     'command': act['kind']})
                    break
            if any(v['property'] == 'C08' for v in ctx.violations):
                break
            # (2) black box: nothing of anybody else changed
            for k, p in watched.items():
                if tree_hash(p) != before_hash[k]:
                    ctx.violate('C08', 'foreign-changed', '%s answered %s: '
                                '%s changed on disk' % (what, cond, k),
                                sig={'layout': case['config'].get('layout'),
                                     'what': 'bob' if k == 'bob' else
                                     'foreign' if k == 'foreign' else
                                     'credentials', 'command': act['kind']})
                    break
            if any(v['property'] == 'C08' for v in ctx.violations):
                break
        if not any(v['property'] == 'C08' for v in ctx.violations):
            after_bob = observe_user(ctx, BOB)
            if after_bob != before_bob:
                ctx.violate('C08', 'other-user', 'bob observed %r before '
                            'alice\'s commands and %r afterwards'
                            % (before_bob, after_bob),
                            sig={'layout': case['config'].get('layout')})
        ctx.finish()
        res = ctx.result()
        res['violations'] = [v for v in res['violations']
                             if v['property'] == 'C08']
        res['nontrivial'] = acted >= 2
        res['stats']['fs_operations'] = len(fs.log) if fs is not None else 0
        if trace:
            res['trace'] = ctx.world.trace
        return res
    finally:
        ctx.close()


class C08(Profile):
    id = 'C08'
    level = 'exploration'
    quick_budget_s = 45.0
    thorough_budget_s = 400.0
    batch = 10
    rule = ('two users provisioned through the real Identity.set (alice '
            'acts, bob is the bystander) plus a foreign directory beside '
            'them; maildir with layout "++" or "fs" (75%) or dict (25%); 3-10 '
            'commands per case, every command that takes a mailbox, '
            'reference or pattern (CREATE, DELETE, RENAME both positions, '
            'SELECT, EXAMINE, STATUS, SUBSCRIBE, UNSUBSCRIBE, LIST, LSUB, '
            'APPEND, COPY, MOVE) with names from 103 hostile shapes (empty, '
            '., .., leading/trailing/doubled delimiters, ../bob, path '
            'separators, NUL, 300 bytes, non-ASCII, modified-UTF-7 spellings '
            'of "..", Unicode look-alikes of . .. and /, names of maildir '
            'control files) or random '
            'compositions. Oracle 1 (SimFS monitor): every path passed to a '
            'file-system call made for alice\'s connection stays inside '
            'base/alice (strictly inside for remove/rmdir/rename); oracle 2: '
            'bob\'s tree, the credential files and the foreign directory '
            'hash identically after every command and bob observes the same '
            'mailboxes afterwards. Non-trivial = >= 2 commands executed.')
    assumptions = [
        'paths are compared after normpath; temporary files created by '
        'tempfile itself are exempt (tracked by identity)',
        'operations that would modify anything outside the scratch tree are '
        'blocked by the interposer (and reported) instead of performed',
        'maildir runs under the asyncio subsystem (no thread pool)']
    components = {
        'real': ['pymap.imap', 'pymap.parsing', 'pymap.backend.session',
                 'pymap.backend.maildir (layout, mailbox, io, uidlist, '
                 'subscriptions, users)', 'stdlib mailbox.Maildir',
                 'pymap.backend.dict', 'tmpfs directory tree'],
        'stub': ['TCP streams', 'TLS', 'thread pool of the maildir backend '
                 '(asyncio subsystem instead)']}

    def gen(self, rng, tier):
        return gen_escape_case(rng, tier)

    def run(self, case, trace=False):
        return run_escape(case, trace)


PROFILE = C08()
