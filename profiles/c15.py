"""C15 - maildir state survives restart and crashes without UID damage."""

from __future__ import annotations

import copy
import hashlib
import os
import random
import shutil
import tempfile

from sim.driver import Profile
from sim.engine import Ctx, Violation, make_message, token_of
from sim.model import MailModel
from sim.shadow import canon_flag
from sim.world import SCRATCH_ROOT
from .c10 import apply_command
from .common import USER, Tokens, flag_list, seq_set, uid_set

RECENT = b'\\Recent'
MAX_IMAGES = 400


def gen_crash_case(rng: random.Random, tier: str) -> dict:
    cfg = {'backend': 'maildir', 'users': [USER],
           'layout': rng.choice(['++', 'fs']),
           'cross_device_tmp': rng.random() < 0.25,
           'bad_command_limit': 0, 'buggify': []}
    tokens = Tokens()
    steps = []
    names = ['INBOX']
    selected = None
    n_added = 0
    if rng.random() < 0.25:
        # a hierarchy worth renaming: a mailbox, an inferior, and a sibling
        # whose name merely starts with the same letters, all with mail
        base = rng.choice(['Work', 'Arch'])
        for name in (base, base + '/Sub', base + rng.choice(['2', 'ive']),
                     base + '/' + base + 'shop'):
            if rng.random() < 0.8:
                steps.append({'actions': [{'kind': 'create', 'sess': 0,
                                           'mailbox': name}],
                              'sched_seed': None})
                names.append(name)
                if rng.random() < 0.7:
                    t = tokens.take()
                    steps.append({'actions': [{
                        'kind': 'append', 'sess': 0, 'mailbox': name,
                        'msgs': [{'data': make_message(t), 'token': t}],
                        'literal': 'litplus'}], 'sched_seed': None})
                    n_added += 1
        steps.append({'actions': [{'kind': 'rename', 'sess': 0,
                                   'mailbox': base,
                                   'to': rng.choice(['Moved', 'Home',
                                                     base + 'R'])}],
                      'sched_seed': None})
        names.append(steps[-1]['actions'][0]['to'])
    for _ in range(rng.randint(3, 12)):
        kind = rng.choices(['append', 'store', 'copy', 'move', 'expunge',
                            'create', 'rename', 'subscribe', 'check',
                            'select', 'close'],
                           [6, 4, 2, 2, 2, 2, 1, 1, 1, 2, 1])[0]
        if selected is None and kind in ('store', 'copy', 'move', 'expunge',
                                         'check', 'close'):
            kind = 'select'
        act = {'kind': kind, 'sess': 0}
        if kind == 'append':
            msgs = []
            for _ in range(rng.choice([1, 1, 2])):
                t = tokens.take()
                m = {'data': make_message(t), 'token': t}
                if rng.random() < 0.5:
                    m['flags'] = flag_list(rng, allow_recent=False)
                msgs.append(m)
            act.update(mailbox=rng.choice(names), msgs=msgs,
                       literal='litplus')
            n_added += len(msgs)
        elif kind == 'store':
            act.update(uid=rng.random() < 0.4,
                       set=seq_set(rng, max(1, n_added)),
                       op=rng.choice(['+', '-', '']),
                       flags=flag_list(rng, allow_recent=False)
                       or ['\\Flagged'], silent=rng.random() < 0.3)
            if act['uid']:
                act['set'] = uid_set(rng, 1, max(1, n_added))
        elif kind in ('copy', 'move'):
            act.update(uid=False, set=seq_set(rng, max(1, n_added)),
                       mailbox=rng.choice(names))
            n_added += 1
        elif kind == 'create':
            name = rng.choice(['Work', 'Work/Sub', 'Archive', 'x y',
                               'Work2', 'Arch', 'Work/Workshop'])
            act['mailbox'] = name
            if name not in names:
                names.append(name)
        elif kind == 'rename':
            cands = [n for n in names if n != 'INBOX']
            if not cands:
                continue
            act['mailbox'] = rng.choice(cands)
            act['to'] = rng.choice([act['mailbox'].split('/')[0] + 'R',
                                    'Moved', 'Home'])
            names.append(act['to'])
        elif kind == 'subscribe':
            act['mailbox'] = rng.choice(names)
        elif kind == 'select':
            act['mailbox'] = rng.choice(names)
            selected = act['mailbox']
        elif kind == 'close':
            selected = None
        steps.append({'actions': [act], 'sched_seed': None})
    return {'config': cfg, 'steps': steps}


def model_state(model: MailModel, subscribed: set) -> dict:
    return {'boxes': {name: [(m.uid, m.token, frozenset(m.flags), m.size)
                             for m in box.msgs]
                      for name, box in model.boxes.items()},
            'subscribed': set(subscribed)}


def norm(data: bytes) -> bytes:
    """The listed C03 finding: maildir stores through BytesGenerator, CRLF
    becomes LF.  Exactly that is normalised here, nothing else."""
    return data.replace(b'\r\n', b'\n')


def recover(image: str, layout: str, what: str, active: bool = False):
    """Start a brand-new backend on the crash image and read everything."""
    cfg = {'backend': 'maildir', 'users': [USER], 'layout': layout,
           'scratch_dir': image, 'skip_users': True, 'keep_scratch': True,
           'bad_command_limit': 0, 'stale_locks': True}
    ctx = Ctx({'config': cfg, 'steps': []})
    out = {'problems': [], 'boxes': {}, 'subscribed': set()}
    try:
        ctx.run_step({'actions': [{'sess': 0, 'kind': 'connect',
                                   'peer': '127.0.0.1'}]}, -1)
        cl = ctx.clients[0]

        def do(action, horizon=2.0):
            c = ctx.run_step({'actions': [dict(action, sess=0)],
                              'sched_seed': None, 'horizon': horizon}, 0)[0]
            cl.pending.clear()
            return c

        def patient(action):
            """Stale lock files left by the kill may answer NO [TIMEOUT]
            until FileLock's 600 s expiry: retry once after advancing the
            virtual clock past it."""
            c = do(action, 20.0)
            if c is not None and c.result is not None and c.cond == 'NO' \
                    and c.result.code and c.result.code[0] == b'TIMEOUT':
                ctx.world.clock.now += 700.0
                out['waited_for_lock_expiry'] = True
                c = do(action, 20.0)
            return c
        c = patient({'kind': 'login', 'user': 'user', 'password': 'pass'})
        if c is None or not c.ok:
            out['problems'].append(('login', 'login after restart answered '
                                    '%r' % (c and c.result,)))
            return out
        c = patient({'kind': 'list', 'ref': '', 'pattern': '*'})
        if c is None or not c.ok:
            out['problems'].append(('list', 'LIST after restart answered %r'
                                    % (c and c.result,)))
            return out
        from sim.client import mutf7_decode
        names = []
        for r in c.untagged:
            if r.name == b'LIST' and b'\\noselect' not in {
                    a.lower() for a in r.data[0]}:
                names.append(mutf7_decode(bytes(r.data[2])))
        c = patient({'kind': 'lsub', 'ref': '', 'pattern': '*'})
        if c is not None and c.ok:
            out['subscribed'] = {mutf7_decode(bytes(r.data[2]))
                                 for r in c.untagged if r.name == b'LSUB'}
        for name in names:
            c = patient({'kind': 'examine', 'mailbox': name})
            if c is None or not c.ok:
                why = [v['detail'] + ' @ ' + v['sig'].get('site', '')
                       for v in ctx.violations if v['property'] == 'C06']
                out['problems'].append(('select', 'mailbox %r cannot be '
                                        'examined after restart: %r %s'
                                        % (name, c and c.result, why)))
                if cl.conn.done:
                    return out
                continue
            sel = dict(cl.shadow.selected or {})
            msgs = []
            if cl.shadow.count:
                c2 = patient({'kind': 'fetch', 'uid': True, 'set': '1:*',
                              'attrs': ['UID', 'FLAGS', 'BODY.PEEK[]']})
                if c2 is None or not c2.ok:
                    out['problems'].append(('fetch', 'messages of %r cannot '
                                            'be fetched after restart: %r'
                                            % (name, c2 and c2.result)))
                    continue
                for r in c2.untagged:
                    if r.name == b'FETCH' and b'UID' in r.data:
                        body = r.data.get(b'BODY[]')
                        msgs.append((r.data[b'UID'],
                                     None if body is None else bytes(body),
                                     frozenset(canon_flag(f) for f in
                                               r.data.get(b'FLAGS') or ())))
            out['boxes'][name] = {'uidvalidity': sel.get('uidvalidity'),
                                  'uidnext': sel.get('uidnext'),
                                  'msgs': msgs}
            do({'kind': 'close'})
        if active:
            # life goes on: one new message per mailbox; where does it land?
            for k, name in enumerate(sorted(out['boxes'])):
                marker = 9000 + k
                c = patient({'kind': 'append', 'mailbox': name,
                             'literal': 'litplus',
                             'msgs': [{'data': make_message(marker),
                                       'token': marker}]})
                code = c.result.code if c is not None and c.result is not None \
                    else None
                if c is None or not c.ok or not code \
                        or code[0] != b'APPENDUID':
                    out['boxes'][name]['append'] = (
                        None, repr(c and c.result))
                    continue
                out['boxes'][name]['append'] = (code[1][0], code[1][1][0])
                c = patient({'kind': 'status', 'mailbox': name,
                             'items': ['MESSAGES', 'UIDNEXT']})
                st = [r for r in (c.untagged if c is not None else ())
                      if r.name == b'STATUS']
                if st:
                    out['boxes'][name]['status_after'] = dict(st[0].data[1])
        for v in ctx.violations:
            if v['property'] == 'C06':
                out['problems'].append(('serverbug', 'server error during '
                                        'recovery: %s %s' % (v['detail'],
                                                             v['sig'])))
        return out
    finally:
        ctx.close()


def judge(rec: dict, before: dict, after: dict, ledger: dict, sent: dict,
          uidvals: dict, what: str):
    """-> (clause, detail) or None.  *before* = state after the acknowledged
    commands, *after* = state if the in-flight command had completed."""
    if rec['problems']:
        clause, detail = rec['problems'][0]
        return 'recovery.' + clause, '%s: %s' % (what, detail)
    for name in set(before['boxes']) & set(after['boxes']):
        if name not in rec['boxes']:
            return 'mailbox-lost', '%s: acknowledged mailbox %r is gone ' \
                '(recovered: %s)' % (what, name, sorted(rec['boxes']))
    for name in (before['subscribed'] & after['subscribed']):
        if name in before['boxes'] and name in after['boxes'] and \
                name not in rec['subscribed'] and name != 'INBOX':
            return 'subscription-lost', '%s: acknowledged subscription of ' \
                '%r is gone' % (what, name)
    for name, box in rec['boxes'].items():
        same_validity = uidvals.get(name) is None or \
            box['uidvalidity'] == uidvals.get(name)
        got = {}
        for uid, body, flags in box['msgs']:
            if body is None:
                return 'content', '%s: UID %d of %r has no content' \
                    % (what, uid, name)
            tok = token_of(body)
            if tok is None or tok not in sent or \
                    norm(body) != norm(sent[tok]):
                return 'content', '%s: UID %d of %r holds %r..., which is ' \
                    'not one of the appended messages intact' \
                    % (what, uid, name, body[:60])
            if uid in got:
                return 'uid-duplicate', '%s: UID %d twice in %r' \
                    % (what, uid, name)
            got[uid] = (tok, flags)
            if same_validity:
                was = ledger.get((name, uid))
                if was is not None and was != tok:
                    return 'uid-reassigned', '%s: UID %d of %r was ' \
                        'acknowledged for token %r and now denotes token ' \
                        '%r' % (what, uid, name, was, tok)
        b = {m[0]: m for m in before['boxes'].get(name, [])}
        a = {m[0]: m for m in after['boxes'].get(name, [])}
        for uid, (_, tok, flags, _) in b.items():
            if uid not in a:
                # being removed by the in-flight command (EXPUNGE, MOVE): it
                # may be gone or still here, but not here under another UID
                # (judged only when the token is unambiguous - COPY makes
                # duplicates - and the command does not itself put the
                # message back into this mailbox, as a MOVE within it does)
                if same_validity and uid not in got and \
                        sum(1 for m in b.values() if m[1] == tok) == 1 and \
                        not any(m[1] == tok for m in a.values()):
                    moved = [u for u, (t, _) in got.items() if t == tok]
                    if len(moved) == 1:
                        return 'uid-reassigned', '%s: message token %r of ' \
                            '%r was acknowledged as UID %d and is served ' \
                            'as UID %s after the restart' % (
                                what, tok, name, uid, moved)
                continue
            if a[uid][1] != tok:
                continue
            if same_validity:
                have = got.get(uid)
                if have is None:
                    return 'message-lost', '%s: acknowledged message UID ' \
                        '%d (token %r) of %r is gone; recovered UIDs %s' \
                        % (what, uid, tok, name, sorted(got))
                if have[0] != tok:
                    return 'uid-reassigned', '%s: UID %d of %r now denotes ' \
                        'token %r instead of %r' % (what, uid, name,
                                                    have[0], tok)
                allowed = {frozenset(flags), frozenset(a[uid][2])}
                if frozenset(have[1] - {RECENT}) not in allowed:
                    return 'flags-lost', '%s: UID %d of %r has flags %s, ' \
                        'acknowledged %s' % (
                            what, uid, name,
                            sorted(f.decode() for f in have[1]),
                            [sorted(f.decode() for f in x) for x in allowed])
            elif tok not in {t for t, _ in got.values()}:
                return 'message-lost', '%s: acknowledged message token %r ' \
                    'of %r is gone (UIDVALIDITY changed)' % (what, tok, name)
    return None


def judge_uids(rec: dict, ledger: dict, uidvals: dict, what: str):
    """C04 across a restart: UIDNEXT above every UID there is, and the next
    message gets a UID above every UID that was ever acknowledged in this
    UIDVALIDITY, expunged ones included."""
    if rec['problems']:
        return None         # C15's business
    for name, box in sorted(rec['boxes'].items()):
        uids = [m[0] for m in box['msgs']]
        nxt = box.get('uidnext')
        if nxt is not None and uids and nxt <= max(uids):
            return 'restart.uidnext-low', '%s: after restart %r reports ' \
                'UIDNEXT %d while UID %d exists' % (what, name, nxt,
                                                    max(uids))
        same_validity = uidvals.get(name) is not None and \
            box['uidvalidity'] == uidvals.get(name)
        app = box.get('append')
        if app is None or app[0] is None:
            continue
        validity, uid = app
        if validity != box['uidvalidity']:
            continue
        if uids and uid <= max(uids):
            return 'restart.uid-reused', '%s: after restart a new message ' \
                'in %r got UID %d although UID %d exists' % (
                    what, name, uid, max(uids))
        if nxt is not None and uid < nxt:
            return 'restart.uidnext-high', '%s: after restart %r reported ' \
                'UIDNEXT %d and then assigned UID %d' % (what, name, nxt,
                                                         uid)
        if same_validity:
            ever = [u for (n, u) in ledger if n == name]
            if ever and uid <= max(ever):
                return 'restart.uid-reused', '%s: after restart a new ' \
                    'message in %r got UID %d, but UID %d had been ' \
                    'acknowledged in this UIDVALIDITY before (expunged or ' \
                    'moved since)' % (what, name, uid, max(ever))
        after = box.get('status_after') or {}
        if after.get(b'UIDNEXT') is not None and \
                after[b'UIDNEXT'] <= uid:
            return 'restart.uidnext-low', '%s: after restart and one APPEND ' \
                '(UID %d) STATUS %r reports UIDNEXT %d' % (
                    what, uid, name, after[b'UIDNEXT'])
    return None


def run_crash(case: dict, trace: bool = False, prop: str = 'C15') -> dict:
    only = case.get('only_image')
    ctx = Ctx(case, trace=trace)
    world = ctx.world
    fs = world.fs
    img_root = tempfile.mkdtemp(prefix='pymap-verif-img-', dir=SCRATCH_ROOT)
    images = []
    state = {'cmd': -1}
    model = MailModel(1)
    model.keyword_boxes = {'INBOX'}
    subscribed: set = set()
    # every acknowledgement "this UID of this mailbox name is this token",
    # with the span of commands during which the name meant that mailbox:
    # [name, uid, token, since, until]
    records: list = []
    current: dict = {}      # (mailbox, uid) -> its open record

    def ledger_for(j: int, strictly_before: bool = False) -> dict:
        out = {}
        for name, uid, token, since, until in records:
            if (since < j if strictly_before else since <= j) and \
                    (until is None or j <= until):
                out[(name, uid)] = token
        return out
    sent: dict = {}         # token -> bytes
    uidvals: dict = {}
    states = []
    violations = []
    base = os.path.join(world.scratch, 'base')
    try:
        def hook(fs_, idx, op, paths):
            if state['cmd'] < 0 or len(images) >= MAX_IMAGES:
                return
            if only is not None and idx != only:
                return
            dest = os.path.join(img_root, 'img%05d' % idx)
            os.makedirs(dest)
            shutil.copytree(base, os.path.join(dest, 'base'), symlinks=True)
            os.makedirs(os.path.join(dest, 'tmp'), exist_ok=True)
            images.append((idx, dest, state['cmd'], op,
                           [os.path.relpath(str(p), base) for p in paths]))
        ctx.run_step({'actions': [{'sess': 0, 'kind': 'connect'}]}, -1)
        ctx.run_step({'actions': [{'sess': 0, 'kind': 'login', 'user': 'user',
                                   'password': 'pass'}]}, -1)
        cl = ctx.clients[0]
        fs.before_mutation = hook
        states.append(model_state(model, subscribed))
        died = False
        for i, step in enumerate(case['steps']):
            act = step['actions'][0]
            state['cmd'] = i
            for m in act.get('msgs', ()):
                sent[m['token']] = m['data'].encode('latin-1')
            cmds = ctx.run_step(step, i)
            cmd = cmds[0]
            cl.pending.clear()
            if cmd is None or cmd.result is None:
                died = True
                states.append(states[-1])
                break
            if cmd.ok:
                if act['kind'] == 'create':
                    if model.box(act['mailbox']) is None:
                        # a new mailbox under a name that may have been used
                        # before (renamed away): its UIDs start afresh
                        for k in [k for k in current
                                  if k[0] == act['mailbox']]:
                            current.pop(k)[4] = i
                        uidvals.pop(act['mailbox'], None)
                    model.create(act['mailbox'])
                elif act['kind'] == 'rename':
                    old, new = act['mailbox'], act['to']
                    for n in list(model.boxes):
                        if n == old or n.startswith(old + '/'):
                            box = model.boxes.pop(n)
                            box.name = new + n[len(old):]
                            model.boxes[box.name] = box
                            if model.selected == n:
                                model.selected = box.name
                            # what was acknowledged under the old name now
                            # lives under the new one
                            # (the old entries stay for the images taken
                            # before the rename)
                            for k in [k for k in current if k[0] == n]:
                                old_rec = current.pop(k)
                                old_rec[4] = i
                                new_rec = [box.name, k[1], old_rec[2], i,
                                           None]
                                records.append(new_rec)
                                current[(box.name, k[1])] = new_rec
                            if n in uidvals:
                                uidvals[box.name] = uidvals[n]
                elif act['kind'] == 'subscribe':
                    subscribed.add(act['mailbox'])
                else:
                    probe_ctx = _Quiet()
                    apply_command(probe_ctx, 'C15x', model, cl, cmd)
                if act['kind'] in ('select', 'examine'):
                    sel = cl.shadow.selected or {}
                    uidvals[act['mailbox']] = sel.get('uidvalidity')
                code = cmd.result.code
                if act['kind'] == 'append' and code \
                        and code[0] == b'APPENDUID':
                    uidvals[act['mailbox']] = code[1][0]
            for name, box in model.boxes.items():
                for m in box.msgs:
                    if m.uid is not None:
                        if (name, m.uid) not in current:
                            rec_ = [name, m.uid, m.token, i, None]
                            records.append(rec_)
                            current[(name, m.uid)] = rec_
            states.append(model_state(model, subscribed))
            if cl.conn.done:
                # e.g. BYE after the selected mailbox was renamed away
                died = True
                break
        fs.before_mutation = None
        state['cmd'] = -1
        n_images = len(images)
        checked = 0
        if not died or True:
            # the clean stop: the image after the last operation
            final = os.path.join(img_root, 'final')
            os.makedirs(final)
            shutil.copytree(base, os.path.join(final, 'base'), symlinks=True)
            os.makedirs(os.path.join(final, 'tmp'), exist_ok=True)
            images.append((-1, final, len(states) - 1, 'clean-stop', []))
        layout = case['config'].get('layout', '++')
        for idx, path, j, op, paths in images:
            if j >= len(states):
                continue
            before = states[j]
            after = states[j + 1] if j + 1 < len(states) else states[j]
            what = 'kill before fs operation #%d %s(%s) during command %d ' \
                '(%s)' % (idx, op, ', '.join(paths), j,
                          case['steps'][j]['actions'][0]['kind'].upper()
                          if 0 <= j < len(case['steps']) else 'end') \
                if idx >= 0 else 'clean stop after the last command'
            rec = recover(path, layout, what, active=prop == 'C04')
            checked += 1
            if prop == 'C04':
                verdict = judge_uids(rec, ledger_for(j, True), uidvals,
                                     what)
            else:
                verdict = judge(rec, before, after, ledger_for(j), sent,
                                uidvals, what)
            shutil.rmtree(path, ignore_errors=True)
            if verdict is not None:
                clause, detail = verdict
                violations.append(Violation(
                    property=prop, clause=clause, detail=detail,
                    sig={'backend': 'maildir', 'layout': layout,
                         'op': op.split('-')[0], 'xdev': bool(
                             case['config'].get('cross_device_tmp'))},
                    step=j, seq=idx, image=idx))
                break
        ctx.finish()
        res = ctx.result()
        res['violations'] = violations
        res['stats'].update({'crash_images': checked,
                             'histories': 1,
                             'history_died': 1 if died else 0,
                             'fs_mutations': fs.mutations})
        res['fired']['fault:kill'] = checked
        res['nontrivial'] = checked >= 3
        if trace:
            res['trace'] = ctx.world.trace
        return res
    finally:
        fs.before_mutation = None
        ctx.close()
        shutil.rmtree(img_root, ignore_errors=True)


class _Quiet:
    """Stand-in for Ctx when the C10 model code is only used to evolve the
    model from acknowledged results."""

    def violate(self, *a, **kw):
        pass

    def stat(self, *a, **kw):
        pass


class C15(Profile):
    id = 'C15'
    level = 'fault_enumeration'
    quick_budget_s = 50.0
    thorough_budget_s = 420.0
    batch = 3
    rule = ('sampled histories of 3-12 commands (APPEND of 1-2 messages, '
            'STORE, COPY, MOVE, EXPUNGE, CREATE, RENAME, SUBSCRIBE, CHECK, '
            'SELECT, CLOSE) by one session on a maildir store, layout "++" or '
            '"fs", temp directory on the same file system or (25%%) a '
            'different one (EXDEV injected on rename out of it). SimFS '
            'copies the store before EVERY mutating file-system operation '
            '(open for writing, close of a written file, rename, remove, '
            'mkdir, rmdir, link, utime) of the history - every prefix of the '
            'operation trace, exhaustive per history (cap %d) - plus the '
            'clean-stop image; each image is restarted with a brand-new '
            'backend instance and a fresh virtual clock and read completely. '
            'Oracle: login/LIST/EXAMINE/FETCH succeed (a stale lock may '
            'answer NO [TIMEOUT] until 700 virtual seconds have passed); '
            'every acknowledged message is present with intact bytes '
            '(modulo the listed CRLF->LF finding), acknowledged or in-flight '
            'flags, and its UID unless UIDVALIDITY changed; no UID ever '
            'acknowledged denotes another token; acknowledged mailboxes and '
            'subscriptions exist; nothing present is half-written. '
            'evaluations = histories, crash_images counts restarts. '
            'Non-trivial = >= 3 images restarted.' % MAX_IMAGES)
    assumptions = [
        'crash = killed process: every completed system call persists '
        '(crash image = copy of the real tree at that instant); power-loss '
        'semantics (lost un-synced pages) are not modelled',
        'maildir runs under the asyncio subsystem; one session, so exactly '
        'one command is in flight at the crash point',
        'FileLock expiry is evaluated against the virtual clock for lock '
        'files found at restart']
    components = {
        'real': ['pymap.backend.maildir (mailbox, uidlist, io, flags, '
                 'subscriptions, layout, users)', 'stdlib mailbox.Maildir',
                 'pymap.concurrent.FileLock', 'pymap.imap', 'tmpfs tree'],
        'stub': ['TCP streams', 'thread pool (asyncio subsystem)',
                 'fsync/power loss']}

    def gen(self, rng, tier):
        return gen_crash_case(rng, tier)

    def run(self, case, trace=False):
        return run_crash(case, trace)

    def simplify(self, case):
        import json
        if case.get('only_image') is None:
            res = run_crash(case)
            for v in res['violations']:
                if v.get('image', -1) >= 0:
                    c = json.loads(json.dumps(case))
                    c['only_image'] = v['image']
                    yield c
                    break


PROFILE = C15()
