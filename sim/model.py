"""Plain sequential reference model of IMAP message commands (RFC 3501 +
UIDPLUS/MOVE), used by C10 (equality), C12, C14, C04 (bookkeeping).

A mailbox is a list of messages in UID order.  The model interprets the same
symbolic action the client encoded and says which messages are addressed,
what the mailbox contains afterwards and what the command reports.
"""

from __future__ import annotations

from .shadow import parse_seqset, canon_flag

__all__ = ['Msg', 'Box', 'MailModel']

SEEN = b'\\Seen'
DELETED = b'\\Deleted'
RECENT = b'\\Recent'
SYSTEM = frozenset({b'\\Seen', b'\\Answered', b'\\Flagged', b'\\Deleted',
                    b'\\Draft'})


class Msg:
    __slots__ = ('uid', 'token', 'flags', 'date', 'size')

    def __init__(self, uid, token, flags, date, size) -> None:
        self.uid = uid
        self.token = token
        self.flags = frozenset(flags)
        self.date = date
        self.size = size

    def __repr__(self) -> str:
        return 'Msg(uid=%r,tok=%r,%s)' % (
            self.uid, self.token, sorted(f.decode() for f in self.flags))


class Box:

    def __init__(self, name: str, first_uid: int | None = None) -> None:
        self.name = name
        self.msgs: list[Msg] = []
        self.next_uid = first_uid     # None: learn from the first report
        self.readonly = False

    def by_uid(self, uid: int):
        for m in self.msgs:
            if m.uid == uid:
                return m
        return None


def flags_of(names) -> frozenset:
    return frozenset(canon_flag(f.encode('latin-1') if isinstance(f, str)
                                else f) for f in names)


def sets_seen(attrs) -> bool:
    """Does this FETCH attribute list set \\Seen (RFC 3501 6.4.5)?"""
    if isinstance(attrs, str):
        return False        # macros ALL/FAST/FULL never do
    for a in attrs:
        u = a.upper()
        if u.startswith('BODY[') or u.startswith('BINARY['):
            return True
        if u in ('RFC822', 'RFC822.TEXT'):
            return True
    return False


class MailModel:
    """Single-writer model: one session issues commands one at a time."""

    def __init__(self, first_uid: int | None = None) -> None:
        self.first_uid = first_uid
        self.boxes: dict[str, Box] = {'INBOX': Box('INBOX', first_uid)}
        self.selected: str | None = None
        self.readonly = False
        self.permflags: frozenset | None = None   # as advertised at SELECT
        self.view: list[Msg] = []     # the session's view (seq order)
        # mailboxes that can hold keywords at all (None: every mailbox);
        # maildir defines keywords per folder in dovecot-keywords
        self.keyword_boxes: set | None = None

    def storable(self, box_name: str, flags) -> frozenset:
        if self.keyword_boxes is None or box_name in self.keyword_boxes:
            return frozenset(flags)
        return frozenset(f for f in flags if f.startswith(b'\\'))

    # -- helpers ------------------------------------------------------------

    def box(self, name: str) -> Box | None:
        if name.upper() == 'INBOX':
            name = 'INBOX'
        return self.boxes.get(name)

    def create(self, name: str) -> None:
        if self.box(name) is None:
            self.boxes[name] = Box(name, self.first_uid)

    def permitted(self, flags: frozenset) -> frozenset:
        perm = self.permflags
        if perm is None:
            return flags & SYSTEM
        out = set()
        star = b'\\*' in perm
        for f in flags:
            if f in perm or (star and not f.startswith(b'\\')):
                out.add(f)
        out.discard(RECENT)
        return frozenset(out)

    def addressed(self, set_text: str, uid: bool) -> list[Msg] | None:
        """Messages of the current view named by the set (RFC semantics;
        out-of-range sequence numbers address nothing)."""
        view = self.view
        if uid:
            maxuid = view[-1].uid if view else 0
            wanted = parse_seqset(set_text.encode('latin-1'), maxuid)
            if wanted is None:
                return None
            w = set(wanted)
            return [m for m in view if m.uid in w]
        wanted = parse_seqset(set_text.encode('latin-1'), len(view))
        if wanted is None:
            return None
        return [view[i - 1] for i in wanted if 1 <= i <= len(view)]

    # -- commands (called only when the server answered OK) -------------------

    def select(self, name: str, readonly: bool, permflags) -> None:
        box = self.box(name)
        self.selected = box.name
        self.readonly = readonly or box.readonly
        self.permflags = None if permflags is None else \
            frozenset(canon_flag(f) for f in permflags)
        self.view = list(box.msgs)

    def deselect(self) -> None:
        self.selected = None
        self.view = []

    def append(self, name: str, msgs: list[dict], uids: list[int] | None,
               when: str | None = None) -> list[Msg]:
        box = self.box(name)
        out = []
        for i, m in enumerate(msgs):
            uid = uids[i] if uids and i < len(uids) else box.next_uid
            flags = set(flags_of(m.get('flags') or ()))
            flags.discard(RECENT)
            flags = self.storable(box.name, flags)
            msg = Msg(uid, m.get('token'), flags, m.get('date'),
                      len(m['data'].encode('latin-1')))
            box.msgs.append(msg)
            if uid is not None:
                box.next_uid = uid + 1
            out.append(msg)
            if self.selected == box.name:
                self.view.append(msg)
        return out

    def store(self, targets: list[Msg], op: str, flags) -> None:
        flags = self.permitted(flags_of(flags))
        for m in targets:
            if op == '+':
                m.flags = m.flags | flags
            elif op == '-':
                m.flags = m.flags - flags
            else:
                m.flags = flags

    def expunge(self, uid_set: str | None = None) -> list[Msg]:
        box = self.box(self.selected)
        victims = [m for m in self.view if DELETED in m.flags]
        if uid_set is not None:
            chosen = self.addressed(uid_set, True) or []
            ids = {id(m) for m in chosen}
            victims = [m for m in victims if id(m) in ids]
        gone = {id(m) for m in victims}
        box.msgs = [m for m in box.msgs if id(m) not in gone]
        self.view = [m for m in self.view if id(m) not in gone]
        return victims

    def copy(self, targets: list[Msg], dest: str,
             uids: list[int] | None) -> list[Msg]:
        box = self.box(dest)
        out = []
        for i, m in enumerate(targets):
            uid = uids[i] if uids and i < len(uids) else box.next_uid
            dup = Msg(uid, m.token, self.storable(box.name, m.flags), m.date,
                      m.size)
            box.msgs.append(dup)
            if uid is not None:
                box.next_uid = uid + 1
            out.append(dup)
            if self.selected == box.name:
                self.view.append(dup)
        return out

    def remove(self, targets: list[Msg]) -> None:
        box = self.box(self.selected)
        gone = {id(m) for m in targets}
        box.msgs = [m for m in box.msgs if id(m) not in gone]
        self.view = [m for m in self.view if id(m) not in gone]
