"""Simulated ManageSieve (RFC 5804) client with a strict response parser."""

from __future__ import annotations

import base64

from .wire import _P, Incomplete, WireError, QStr, Lit, Atom

__all__ = ['SieveClient', 'SieveResp', 'sieve_string']

_ATOM = bytes(range(0x41, 0x5b)) + bytes(range(0x61, 0x7b)) + b'0123456789' \
    b'/-_.:'


class SieveResp:
    __slots__ = ('cond', 'code', 'text', 'lines')

    def __init__(self, cond, code, text, lines) -> None:
        self.cond = cond
        self.code = code
        self.text = text
        self.lines = lines

    @property
    def ok(self) -> bool:
        return self.cond == b'OK'

    def __repr__(self) -> str:
        return 'SieveResp(%r,code=%r,text=%r,lines=%r)' % (
            self.cond, self.code, self.text, self.lines)


def _sieve_literal(p: _P) -> Lit:
    p.expect(b'{')
    count = p.number()
    p.expect(b'}')
    p.crlf()
    end = p.pos + count
    if end > p.n:
        raise Incomplete()
    val = Lit(bytes(p.buf[p.pos:end]))
    p.pos = end
    return val


def _token(p: _P):
    c = p.peek()
    if c == 0x22:
        return p.quoted()
    if c == 0x7b:
        return _sieve_literal(p)
    if c == 0x28:
        p.pos += 1
        items = []
        while True:
            if p.peek() == 0x29:
                p.pos += 1
                return items
            if items:
                p.sp()
            items.append(_token(p))
    tok = p.span(_ATOM)
    if not tok:
        raise WireError('sieve.syntax', 'unexpected byte %r'
                        % bytes(p.buf[p.pos:p.pos + 1]), p.pos)
    return Atom(tok)


def parse_response(buf, pos: int):
    """One complete response (data lines + final OK/NO/BYE line)."""
    p = _P(buf, pos, utf8_quoted=True)
    lines = []
    while True:
        toks = [_token(p)]
        while p.peek() == 0x20:
            p.pos += 1
            toks.append(_token(p))
        p.crlf()
        first = toks[0]
        if isinstance(first, Atom) and first.upper() in (b'OK', b'NO', b'BYE'):
            code = None
            text = None
            rest = toks[1:]
            if rest and isinstance(rest[0], list):
                code = rest[0]
                rest = rest[1:]
            if rest:
                if not isinstance(rest[0], (QStr, Lit)) or len(rest) > 1:
                    raise WireError('sieve.final', 'bad final line %r'
                                    % (toks,), p.pos)
                text = bytes(rest[0])
            return SieveResp(bytes(first.upper()), code, text, lines), p.pos
        lines.append(toks)


def sieve_string(val: bytes, spelling: str = 'auto') -> bytes:
    quotable = not any(c in (0, 10, 13) for c in val)
    if spelling == 'auto':
        spelling = 'quoted' if quotable and len(val) < 100 else 'literal'
    if spelling == 'quoted' and quotable:
        return b'"' + val.replace(b'\\', b'\\\\').replace(b'"', b'\\"') + b'"'
    return b'{%d+}\r\n' % len(val) + val


class SieveClient:

    def __init__(self, world, sid: int, peer: str = '127.0.0.1') -> None:
        self.world = world
        self.sid = sid
        self.conn = world.connect('sieve', peer)
        self.pos = 0
        self.responses: list[SieveResp] = []
        self.error: WireError | None = None
        self.violations: list[dict] = []
        world.pumps.append(self.pump)

    def pump(self) -> None:
        if self.error is not None:
            return
        while self.pos < len(self.conn.out):
            try:
                resp, end = parse_response(self.conn.out, self.pos)
            except Incomplete:
                break
            except WireError as exc:
                self.error = exc
                ctx = bytes(self.conn.out[max(0, exc.pos - 60):exc.pos + 40])
                self.violations.append({
                    'property': 'C19', 'clause': 'wire.' + exc.clause,
                    'detail': '%s near %r' % (exc.detail, ctx)})
                break
            self.pos = end
            self.responses.append(resp)

    #: random.Random or None: cut what is sent into pieces and let the server
    #: run between their arrivals (the wire does not preserve write sizes)
    chunk_rng = None

    def send(self, data: bytes) -> None:
        self.world.log('sieve-cmd', self.sid, data[:40])
        rng = self.chunk_rng
        if rng is None or len(data) < 2:
            self.conn.send(data)
            return
        chunks = []
        left = len(data)
        while left > 0:
            n = min(left, rng.choice([1, 2, 3, 5, 8, 16, 40, 200]))
            chunks.append(n)
            left -= n
        self.conn.send(data, chunks)

    def command(self, data: bytes, horizon: float = 1.0) -> SieveResp | None:
        """Send one command and run until its response arrived."""
        before = len(self.responses)
        self.send(data)
        # with a scheduler PRNG deliveries and server steps interleave
        self.world.run(horizon, self.chunk_rng, [])
        if len(self.responses) > before:
            return self.responses[before]
        return None

    @staticmethod
    def plain(user: str, password: str, authzid: str = '') -> bytes:
        raw = ('%s\0%s\0%s' % (authzid, user, password)).encode()
        return b'AUTHENTICATE "PLAIN" "' + base64.b64encode(raw) + b'"\r\n'
