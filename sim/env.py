"""Process-wide seams: everything nondeterministic that pymap (or the stdlib
code under it) reads is redirected to the simulator.  Installed once per
process; the current :class:`~sim.world.World` is looked up through
``env.CURRENT`` so the patches themselves are stateless.

No change to /repo is involved: module-level names are substituted from the
outside.
"""

from __future__ import annotations

import asyncio
import gc
import logging
import os
import random
import socket
import sys
import time
import weakref
from collections.abc import MutableSet
from datetime import datetime

from .loop import VClock, install_watchdog

__all__ = ['CLOCK', 'install', 'CURRENT', 'set_current', 'OrderedWeakSet']

CLOCK = VClock()
CURRENT = None  # the running World
_installed = False


def set_current(world) -> None:
    global CURRENT
    CURRENT = world


class OrderedWeakSet(MutableSet):
    """Weak set with a defined iteration order (insertion order, or a
    seed-chosen permutation supplied by the world)."""

    def __init__(self, data=None) -> None:
        self._refs: dict[int, weakref.ref] = {}
        if data is not None:
            for item in data:
                self.add(item)

    def _remove(self, key: int, ref) -> None:
        cur = self._refs.get(key)
        if cur is ref:
            del self._refs[key]

    def add(self, item) -> None:
        key = id(item)
        if key in self._refs and self._refs[key]() is item:
            return
        self_ref = weakref.ref(self)

        def cb(ref, key=key, self_ref=self_ref):
            s = self_ref()
            if s is not None:
                s._remove(key, ref)
        self._refs[key] = weakref.ref(item, cb)

    def discard(self, item) -> None:
        key = id(item)
        ref = self._refs.get(key)
        if ref is not None and ref() is item:
            del self._refs[key]

    def __contains__(self, item) -> bool:
        ref = self._refs.get(id(item))
        return ref is not None and ref() is item

    def __len__(self) -> int:
        return sum(1 for r in self._refs.values() if r() is not None)

    def __iter__(self):
        items = [r() for r in list(self._refs.values())]
        items = [i for i in items if i is not None]
        world = CURRENT
        if world is not None and len(items) > 1:
            items = world.permute('weakset', items)
        return iter(items)


class SimDateTime(datetime):

    @classmethod
    def now(cls, tz=None):
        return datetime.fromtimestamp(CLOCK.time(), tz)


class _YieldingLock(asyncio.Lock):
    """asyncio.Lock whose acquire/release may really suspend (buggify
    ``lock_yield``): every ``async with lock`` is a legal suspension point."""

    async def acquire(self):
        world = CURRENT
        if world is not None and world.buggify('lock_yield'):
            await asyncio.sleep(0)
        if world is not None and world.buggify('lock_stall'):
            # the acquire has to wait for a holder outside this loop (the
            # threaded subsystem, another process): long enough for other
            # sessions to run whole commands meanwhile
            rng = world.sched_rng
            await asyncio.sleep(rng.choice([0.001, 0.01, 0.05, 0.2])
                                if rng is not None else 0.01)
        return await super().acquire()

    async def __aexit__(self, exc_type, exc, tb):
        self.release()
        world = CURRENT
        if exc_type is None and world is not None \
                and world.buggify('lock_yield'):
            try:
                await asyncio.sleep(0)
            except asyncio.CancelledError:
                # asyncio.Lock.__aexit__ never suspends, so a cancellation
                # cannot be delivered here in reality: hand it on to the
                # task's next real suspension point instead
                asyncio.current_task().cancel()


class _LogCapture(logging.Handler):

    def emit(self, record) -> None:
        world = CURRENT
        if world is None:
            return
        exc = None
        if record.exc_info and record.exc_info[1] is not None:
            exc = record.exc_info[1]
        world.on_server_log(record, exc)


def install() -> None:
    global _installed
    if _installed:
        return
    _installed = True
    os.environ['FQDN'] = 'sim'
    os.environ['TZ'] = 'UTC'
    time.tzset()
    time.time = CLOCK.time
    socket.gethostname = lambda: 'simhost'
    gc.disable()
    install_watchdog()
    sys.setrecursionlimit(1000)

    import pymap.selected
    import pymap.concurrent
    import pymap.backend.dict.mailbox as dict_mailbox
    pymap.selected.WeakSet = OrderedWeakSet
    pymap.concurrent.WeakSet = OrderedWeakSet
    pymap.concurrent._asyncio_Lock = _YieldingLock
    dict_mailbox.datetime = SimDateTime
    try:
        import pymap.backend.maildir.mailbox as maildir_mailbox
        maildir_mailbox.datetime = SimDateTime
    except Exception:  # pragma: no cover
        pass

    import pymap.imap as imap_mod
    from pymap.context import socket_info
    orig_state = imap_mod.ConnectionState

    class RegisteringState(orig_state):

        def __init__(self, login, config):
            super().__init__(login, config)
            world = CURRENT
            if world is not None:
                try:
                    world.states[socket_info.get()._transport.cid] = self
                except Exception:
                    pass

    imap_mod.ConnectionState = RegisteringState

    # pysasl scans importlib entry points on every SASLAuth.defaults() call
    # (7 ms per connection); the set of installed mechanisms cannot change
    # while a check runs, so scan once and build fresh instances from it.
    import pysasl
    from pysasl import mechanism as _mech
    from importlib.metadata import entry_points as _eps
    _classes = [(ep.name, ep.load()) for ep in _eps(group=_mech.__package__)]

    def _get_builtin_mechanisms(cls):
        for name, mech_cls in _classes:
            yield mech_cls(name)
    pysasl.SASLAuth._get_builtin_mechanisms = classmethod(
        _get_builtin_mechanisms)

    root = logging.getLogger('pymap')
    root.setLevel(logging.ERROR)
    root.addHandler(_LogCapture())
    root.propagate = False
    logging.getLogger('asyncio').setLevel(logging.CRITICAL)
    # everything imported so far is permanent: keep it out of gc.collect()
    gc.collect()
    gc.freeze()


def reset_process_state(seed: int) -> None:
    """Per-case reset of process-global mutable state."""
    CLOCK.reset()
    random.seed(seed)
    try:
        import mailbox
        mailbox.Maildir._count = 1
    except Exception:  # pragma: no cover
        pass
    gc.collect()
