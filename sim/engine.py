"""Running a case: a case is data, running it is a pure function of the case
and the code under test.

case = {"config": {...world config...},
        "steps": [{"actions": [{"sess": i, "kind": ...}, ...],
                   "sched_seed": int | None, "faults": [...],
                   "horizon": float}, ...]}
"""

from __future__ import annotations

import random

from .client import Client, s
from .world import World, HarnessError, innermost_pymap_frame
from .loop import HangDetected

__all__ = ['Ctx', 'Violation', 'run_steps', 'make_message', 'token_of']

HARNESS_KINDS = ('connect', 'reset', 'eof', 'hold', 'unhold', 'cancel',
                 'probe', 'gc', 'advance')


def make_message(token: int, extra_headers: str = '', body: str | None = None,
                 size_pad: int = 0) -> str:
    """A small well-formed message carrying a unique token in a header and
    in the body (latin-1 text)."""
    if body is None:
        body = 'body of message %d\r\n' % token
    body += 'x' * size_pad + ('\r\n' if size_pad else '')
    return ('From: sender%d@example.com\r\n'
            'To: rcpt@example.com\r\n'
            'Subject: message %d\r\n'
            'X-Token: T%dT\r\n'
            'Date: Mon, 15 Jan 2024 12:00:00 +0000\r\n'
            '%s\r\n%s' % (token % 7, token, token, extra_headers, body))


def token_of(data: bytes) -> int | None:
    idx = data.find(b'X-Token: T')
    if idx < 0:
        return None
    end = data.find(b'T', idx + 10)
    try:
        return int(data[idx + 10:end])
    except ValueError:
        return None


class Violation(dict):
    """{'property','clause','detail','sig':{...}, ...}"""

    @property
    def signature(self) -> str:
        sig = self.get('sig') or {}
        return '%s|%s|%s' % (self['property'], self['clause'], ','.join(
            '%s=%s' % kv for kv in sorted(sig.items())))


class Ctx:
    """One case being executed."""

    def __init__(self, case: dict, trace: bool = False) -> None:
        self.case = case
        cfg = dict(case.get('config', {}))
        self.world = World(cfg, seed=int(case.get('seed', 0)), trace=trace)
        self.backend = self.world.backend
        self.clients: dict[int, Client] = {}
        self.all_clients: list[Client] = []
        self.violations: list[Violation] = []
        self.step_index = -1
        self.stats: dict[str, int] = {}
        self.started: list = []     # (step, sess, Cmd) in start order
        self.skipped = 0
        self._probe_n = 0
        self.probe_clients: list[Client] = []
        self.closed = False
        self._collected = 0

    # -- bookkeeping ------------------------------------------------------

    def stat(self, name: str, n: int = 1) -> None:
        self.stats[name] = self.stats.get(name, 0) + n

    def violate(self, prop: str, clause: str, detail: str,
                sig: dict | None = None, **kw) -> None:
        v = Violation(property=prop, clause=clause, detail=detail,
                      sig=dict(sig or {}), step=self.step_index,
                      seq=self.world.seq)
        v['sig'].setdefault('backend', self.backend)
        v.update(kw)
        self.violations.append(v)

    def client(self, sid: int) -> Client | None:
        return self.clients.get(sid)

    def connect(self, sid: int, action: dict | None = None) -> Client:
        action = action or {}
        cl = Client(self.world, sid, action.get('proto', 'imap'),
                    action.get('peer', '1.2.3.4'))
        self.clients[sid] = cl
        self.all_clients.append(cl)
        return cl

    # -- executing one step -------------------------------------------------

    def run_step(self, step: dict, index: int) -> list:
        """Start the step's actions, run to quiescence; returns the Cmd
        objects started (None for harness actions)."""
        self.step_index = index
        world = self.world
        if step.get('quiesce') or step.get('converge') or \
                step.get('idle_check'):
            self.quiesce()
        seed = step.get('sched_seed')
        rng = random.Random(seed) if seed is not None else None
        faults = [dict(f) for f in step.get('faults', ())]
        for f in faults:
            if 'sess' in f:
                cl = self.clients.get(f['sess'])
                if cl is None:
                    f['kind'] = 'noop'
                else:
                    f['conn'] = cl.conn.cid
        faults = [f for f in faults if f['kind'] != 'noop']
        cmds = []
        for action in step.get('actions', ()):
            kind = action['kind']
            sid = action.get('sess', 0)
            cl = self.clients.get(sid)
            cmd = None
            if kind == 'connect':
                if cl is None or cl.conn.done or cl.conn.client_reset:
                    self.connect(sid, action)
                else:
                    self.skipped += 1
            elif kind == 'gc':
                import gc
                gc.collect()
            elif kind == 'advance':
                world.clock.now += float(action.get('dt', 1.0))
            elif kind in ('deliver', 'extlock'):
                # the delivery agent drops a file at scheduler position 'at'
                f = {k: v for k, v in action.items() if k != 'sess'}
                f.setdefault('at', 0)
                faults.append(f)
            elif cl is None:
                self.skipped += 1
            elif kind in ('reset', 'eof', 'hold', 'unhold', 'cancel'):
                f = {'kind': kind, 'conn': cl.conn.cid, 'at': 0}
                if kind == 'hold':
                    f['auto'] = bool(action.get('auto', False))
                faults.append(f)
            elif cl.conn.done or cl.conn.client_reset or cl.conn.client_eof \
                    or cl.conn.inbox_eof:
                self.skipped += 1
            elif kind in ('done', 'cont_data'):
                cl.chunk_rng = random.Random(action['chunk_seed']) \
                    if action.get('chunk_seed') is not None else None
                cmd = cl.start(action)
            elif cl.pending and not action.get('pipeline'):
                self.skipped += 1
            else:
                cl.chunk_rng = random.Random(action['chunk_seed']) \
                    if action.get('chunk_seed') is not None else None
                cmd = cl.start(action)
                self.started.append((index, sid, cmd))
                self.stat('commands')
            cmds.append(cmd)
        self._run(step.get('horizon', 2.0), rng, faults)
        return cmds

    def quiesce(self) -> None:
        """"Once no command is in flight": commands stretched past their
        step's horizon (lock_stall, extlock) get the time to finish."""
        for _ in range(40):
            busy = [cl for cl in self.clients.values()
                    if not cl.conn.done and not cl.conn.held and any(
                        c.result is None and not (
                            c.kind == 'idle' and not c.done_sent)
                        for c in cl.pending)]
            if not busy:
                return
            self._run(2.0, None, [])
            self.stat('settled_before_quiescent_point')

    def _run(self, horizon, rng, faults) -> None:
        try:
            self.world.run(horizon, rng, faults)
        except HangDetected as exc:   # raised outside a task (should not be)
            self.violate('C06', 'hang', 'callback did not return',
                         sig={'site': innermost_pymap_frame(exc)})
        self.collect()

    def settle(self, horizon: float = 0.0) -> None:
        self._run(horizon, None, [])

    # -- collecting what clients and connection tasks observed ------------

    def collect(self) -> None:
        for cl in self.all_clients + self.probe_clients:
            while cl.violations:
                v = cl.violations.pop(0)
                sig = {}
                for k in ('diagnosis', 'cause'):
                    if k in v:
                        sig[k] = v[k]
                self.violate(v.pop('property'), v.pop('clause'),
                             v.pop('detail'), sig=sig, **v)
            conn = cl.conn
            if conn.done and not getattr(conn, '_outcome_seen', False):
                conn._outcome_seen = True
                self._task_outcome(cl)
                conn.scrub()
                cl.shadow.on_disconnect()
                if cl.sid < 900:
                    import gc
                    gc.collect()

    def _task_outcome(self, cl: Client) -> None:
        task = cl.conn.task
        if task.cancelled():
            return
        exc = task.exception()
        if exc is None:
            return
        site = innermost_pymap_frame(exc)
        cl.conn.failure = (type(exc).__name__, site)
        if isinstance(exc, HangDetected):
            self.violate('C06', 'hang', 'server callback did not return '
                         'within the wall watchdog', session=cl.sid,
                         sig={'site': site})
        else:
            self.violate('C06', 'serverbug', '%s: %s' % (
                type(exc).__name__, str(exc)[:200]), session=cl.sid,
                sig={'exception': type(exc).__name__, 'site': site})

    # -- probe: what the mailbox actually contains ---------------------------

    def probe(self, mailbox: str = 'INBOX', user: dict | None = None,
              body: bool = False, mailbox_raw: str | None = None,
              examine: bool = True, extra_attrs: tuple = ()) -> dict | None:
        """Fresh connection, read-only dump of one mailbox through the real
        server.  Returns None if the mailbox cannot be examined."""
        user = user or self.world.users[0]
        self._probe_n += 1
        cl = Client(self.world, 900 + self._probe_n, peer='127.0.0.1',
                    glass=False)
        self.probe_clients.append(cl)
        self.stat('probes')

        def do(action: dict):
            cmd = cl.start(action)
            for horizon in (0.0, 0.5, 5.0, 700.0):
                self.world.run(horizon, None, [])
                if cmd.result is not None or cl.conn.done:
                    break
            return cmd
        self.world.run(0.0, None, [])
        out = None
        try:
            cmd = do({'kind': 'login', 'user': user['name'],
                      'password': user['password']})
            if not cmd.ok:
                raise HarnessError('probe login failed: %r' % (cmd.result,))
            sel = {'kind': 'examine' if examine else 'select'}
            if mailbox_raw is not None:
                sel['mailbox_raw'] = mailbox_raw
            else:
                sel['mailbox'] = mailbox
            cmd = do(sel)
            if cmd.ok:
                info = dict(cl.shadow.selected or {})
                attrs = ['UID', 'FLAGS', 'INTERNALDATE', 'RFC822.SIZE']
                attrs += list(extra_attrs)
                if body:
                    attrs.append('BODY.PEEK[]')
                msgs = {}
                order = []
                if cl.shadow.count:
                    cmd = do({'kind': 'fetch', 'uid': True, 'set': '1:*',
                              'attrs': attrs})
                    if not cmd.ok:
                        info['fetch_failed'] = repr(cmd.result)
                    for r in cmd.untagged:
                        if r.name == b'FETCH' and b'UID' in r.data:
                            d = r.data
                            uid = d[b'UID']
                            order.append(uid)
                            rec = {
                                'seq': r.num,
                                'flags': frozenset(
                                    f for f in (d.get(b'FLAGS') or ())),
                                'date': d.get(b'INTERNALDATE'),
                                'size': d.get(b'RFC822.SIZE')}
                            if body:
                                rec['body'] = d.get(b'BODY[]')
                            for a in extra_attrs:
                                rec[a] = d.get(a.encode())
                            msgs[uid] = rec
                out = {'info': info, 'msgs': msgs, 'order': order,
                       'exists': info.get('exists'), 'seq': self.world.seq}
            do({'kind': 'logout'})
        finally:
            if not cl.conn.done:
                cl.conn.reset()
                self.world.run(0.0, None, [])
            try:
                self.world.pumps.remove(cl.pump)
            except ValueError:
                pass
        self.collect()
        return out

    # -- end ----------------------------------------------------------------

    def finish(self) -> None:
        """Truncated output at the end of a stream is a wire violation unless
        the transport was torn down under the writer."""
        for cl in self.all_clients + self.probe_clients:
            cl.pump()
            left = cl.stream.leftover(cl.conn.out)
            if left and cl.stream.error is None:
                conn = cl.conn
                torn = conn.client_reset or \
                    (conn.task is not None and conn.task.cancelled())
                if conn.done and not torn:
                    cause = getattr(conn, 'failure', None)
                    cl.violate('C07', 'wire.truncated',
                               'stream ended inside a response: %r'
                               % left[:80],
                               cause=cause[1] if cause else 'none')
        self.collect()

    def close(self) -> None:
        if not self.closed:
            self.closed = True
            self.world.close()

    def result(self) -> dict:
        w = self.world
        return {'violations': self.violations, 'digest': w.digest(),
                'stats': dict(self.stats), 'probes': dict(w.probes),
                'fired': dict(w.fired), 'moves': w.moves,
                'iterations': w.loop.iterations,
                'sim_seconds': w.clock.now, 'skipped': self.skipped}
