"""Strict, independent parser for what an IMAP4rev1 server may write
(RFC 3501 section 9 `response`, plus the extensions pymap advertises:
LITERAL+/BINARY literal8, UIDPLUS codes, OBJECTID, ID, MOVE, ESEARCH).

Written from the RFC text; shares nothing with ``pymap.parsing``.  It enforces
what property C07 states: complete CRLF-terminated lines, literal counts equal
to the bytes that follow, quoted strings without CR/LF/NUL or unescaped
quote/backslash, balanced lists, and the argument shape of each response type.
"""

from __future__ import annotations

import re

__all__ = ['WireError', 'Incomplete', 'Resp', 'ResponseStream', 'Atom',
           'QStr', 'Lit', 'parse_one']


class Incomplete(Exception):
    """More bytes are needed before the response can be judged."""


class WireError(Exception):

    def __init__(self, clause: str, detail: str, pos: int) -> None:
        super().__init__('%s: %s @%d' % (clause, detail, pos))
        self.clause = clause
        self.detail = detail
        self.pos = pos


class Atom(bytes):
    __slots__ = ()


class QStr(bytes):
    __slots__ = ()


class Lit(bytes):
    __slots__ = ()


class Resp:
    """One parsed response.

    kind: 'cont' | 'cond' | 'data'
    tag: b'*', b'+' or the command tag
    name: condition (OK/NO/BAD/BYE/PREAUTH) or data name (EXISTS, FETCH, ...)
    num: leading number of a message-data response
    code: (name, args) of the bracketed response code, or None
    text: human-readable text
    data: parsed arguments (type depends on name)
    """

    __slots__ = ('kind', 'tag', 'name', 'num', 'code', 'text', 'data',
                 'start', 'end')

    def __init__(self, kind, tag, name=None, num=None, code=None, text=b'',
                 data=None) -> None:
        self.kind = kind
        self.tag = tag
        self.name = name
        self.num = num
        self.code = code
        self.text = text
        self.data = data
        self.start = 0
        self.end = 0

    @property
    def tagged(self) -> bool:
        return self.kind == 'cond' and self.tag not in (b'*', b'+')

    def __repr__(self) -> str:
        return 'Resp(%r,%r,%r,num=%r,code=%r,data=%r,text=%r)' % (
            self.kind, self.tag, self.name, self.num, self.code, self.data,
            self.text[:40])


_ATOM_SPECIALS = b'(){ %*"\\]'
_ATOM_OK = bytes(c for c in range(0x21, 0x7f) if c not in _ATOM_SPECIALS)
_TAG_OK = bytes(c for c in range(0x21, 0x7f) if c not in b'(){ %*"\\+')
_DIGITS = b'0123456789'
_CONDS = (b'OK', b'NO', b'BAD', b'BYE', b'PREAUTH')
_FLAG_RE = re.compile(rb'\\?[^\x00-\x20\x7f(){%*"\\\]]+\Z|\\\*\Z')


class _P:
    """Cursor over the buffer."""

    def __init__(self, buf, pos: int, utf8_quoted: bool = False) -> None:
        self.buf = buf
        self.pos = pos
        self.n = len(buf)
        # ManageSieve (RFC 5804) has UTF-8 in quoted strings, IMAP has not
        self.utf8_quoted = utf8_quoted

    def peek(self) -> int:
        if self.pos >= self.n:
            raise Incomplete()
        return self.buf[self.pos]

    def take(self) -> int:
        c = self.peek()
        self.pos += 1
        return c

    def expect(self, lit: bytes, clause: str = 'syntax') -> None:
        end = self.pos + len(lit)
        got = bytes(self.buf[self.pos:end])
        if got != lit:
            if len(got) < len(lit) and lit.startswith(got):
                raise Incomplete()
            raise WireError(clause, 'expected %r got %r' % (lit, got),
                            self.pos)
        self.pos = end

    def sp(self) -> None:
        self.expect(b' ', 'spacing')

    def crlf(self) -> None:
        self.expect(b'\r\n', 'line-end')

    def span(self, allowed: bytes) -> bytes:
        start = self.pos
        buf = self.buf
        pos = start
        n = self.n
        while pos < n and buf[pos] in allowed:
            pos += 1
        if pos >= n:
            raise Incomplete()
        self.pos = pos
        return bytes(buf[start:pos])

    def number(self) -> int:
        digits = self.span(_DIGITS)
        if not digits:
            raise WireError('syntax', 'expected number', self.pos)
        return int(digits)

    def atom(self) -> Atom:
        val = self.span(_ATOM_OK)
        if not val:
            raise WireError('syntax', 'expected atom got %r' %
                            bytes(self.buf[self.pos:self.pos + 10]), self.pos)
        return Atom(val)

    def quoted(self) -> QStr:
        self.expect(b'"')
        out = bytearray()
        while True:
            c = self.take()
            if c == 0x22:
                return QStr(bytes(out))
            if c == 0x5c:
                d = self.take()
                if d not in (0x22, 0x5c):
                    raise WireError('quoted', 'bad escape \\%c' % d,
                                    self.pos - 1)
                out.append(d)
            elif c in (0x0d, 0x0a, 0x00) or \
                    (c >= 0x80 and not self.utf8_quoted):
                # QUOTED-CHAR is a TEXT-CHAR, CHAR is %x01-7F (UTF8=ACCEPT
                # is not advertised)
                raise WireError('quoted', 'byte 0x%02x inside quoted string'
                                % c, self.pos - 1)
            else:
                out.append(c)

    def _is_literal(self) -> bool:
        c = self.peek()
        if c == 0x7b:
            return True
        if c == 0x7e:       # '~{' introduces a literal8, a lone '~' an atom
            if self.pos + 1 >= self.n:
                raise Incomplete()
            return self.buf[self.pos + 1] == 0x7b
        return False

    def literal(self) -> Lit:
        if self.peek() == 0x7e:  # '~' literal8
            self.pos += 1
        self.expect(b'{')
        count = self.number()
        self.expect(b'}')
        self.crlf()
        end = self.pos + count
        if end > self.n:
            raise Incomplete()
        val = Lit(bytes(self.buf[self.pos:end]))
        self.pos = end
        return val

    def string(self):
        c = self.peek()
        if c == 0x22:
            return self.quoted()
        if self._is_literal():
            return self.literal()
        raise WireError('syntax', 'expected string got %r' %
                        bytes(self.buf[self.pos:self.pos + 10]), self.pos)

    def nstring(self):
        c = self.peek()
        if c == 0x22 or self._is_literal():
            return self.string()
        self.expect(b'NIL')
        return None

    def astring(self):
        c = self.peek()
        if c == 0x22 or self._is_literal():
            return self.string()
        val = self.span(_ATOM_OK + b']')
        if not val:
            raise WireError('syntax', 'expected astring', self.pos)
        return Atom(val)

    def value(self, depth: int = 0):
        """Generic s-expression: list | string | NIL | number | atom."""
        if depth > 260:
            raise WireError('list', 'nesting too deep', self.pos)
        c = self.peek()
        if c == 0x28:
            return self.list_(depth)
        if c == 0x22 or self._is_literal():
            return self.string()
        tok = self.span(_ATOM_OK + b'\\[]<>.')
        if not tok:
            raise WireError('syntax', 'unexpected byte %r' %
                            bytes(self.buf[self.pos:self.pos + 1]), self.pos)
        if tok == b'NIL':
            return None
        if tok.isdigit():
            return int(tok)
        return Atom(tok)

    def list_(self, depth: int = 0) -> list:
        self.expect(b'(')
        items = []
        if self.peek() == 0x29:
            self.pos += 1
            return items
        while True:
            items.append(self.value(depth + 1))
            c = self.take()
            if c == 0x29:
                return items
            if c == 0x28 and isinstance(items[-1], list):
                # "(...)(...)": address lists and multipart bodies put
                # parenthesised items next to each other without SP
                self.pos -= 1
                continue
            if c != 0x20:
                raise WireError('list', 'expected SP or ) got %r' %
                                bytes([c]), self.pos - 1)
            if self.peek() in (0x20, 0x29):
                raise WireError('spacing', 'stray space in list', self.pos)

    def text_to_crlf(self) -> bytes:
        buf = self.buf
        idx = buf.find(b'\n', self.pos)
        if idx < 0:
            cr = buf.find(b'\r', self.pos)
            if cr >= 0 and cr < self.n - 1:
                raise WireError('text', 'bare CR in text', cr)
            if buf.find(b'\x00', self.pos) >= 0:
                raise WireError('text', 'NUL in text', self.pos)
            raise Incomplete()
        if idx == self.pos or buf[idx - 1] != 0x0d:
            raise WireError('text', 'bare LF in text', idx)
        text = bytes(buf[self.pos:idx - 1])
        if b'\r' in text:
            raise WireError('text', 'bare CR in text', self.pos)
        if b'\x00' in text:
            raise WireError('text', 'NUL in text', self.pos)
        self.pos = idx + 1
        return text


def _flag_list(p: _P) -> list[bytes]:
    items = p.list_()
    for it in items:
        if not isinstance(it, Atom) or not _FLAG_RE.match(it):
            raise WireError('flags', 'bad flag %r' % (it,), p.pos)
    return [bytes(it) for it in items]


def _resp_code(p: _P):
    """``[`` already seen."""
    p.expect(b'[')
    name = p.span(_ATOM_OK).upper()
    if not name:
        raise WireError('code', 'empty response code', p.pos)
    args = None
    if p.peek() == 0x20:
        p.pos += 1
        if name == b'CAPABILITY':
            caps = [p.atom()]
            while p.peek() == 0x20:
                p.pos += 1
                caps.append(p.atom())
            args = [bytes(c) for c in caps]
        elif name == b'PERMANENTFLAGS':
            args = _flag_list(p)
        elif name in (b'UIDNEXT', b'UIDVALIDITY', b'UNSEEN',
                      b'HIGHESTMODSEQ'):
            args = p.number()
            if name != b'HIGHESTMODSEQ' and name != b'UNSEEN' and args < 1:
                raise WireError('code', '%s must be non-zero' %
                                name.decode(), p.pos)
        elif name == b'APPENDUID':
            uidval = p.number()
            p.sp()
            uids = _uid_set(p)
            args = (uidval, uids)
        elif name == b'COPYUID':
            uidval = p.number()
            p.sp()
            src = _uid_set(p)
            p.sp()
            dst = _uid_set(p)
            args = (uidval, src, dst)
        elif name == b'MAILBOXID':
            ids = p.list_()
            if len(ids) != 1 or not isinstance(ids[0], Atom):
                raise WireError('code', 'bad MAILBOXID', p.pos)
            args = bytes(ids[0])
        else:
            start = p.pos
            buf = p.buf
            while True:
                c = p.take()
                if c == 0x5d:
                    p.pos -= 1
                    break
                if c in (0x0d, 0x0a, 0x00):
                    raise WireError('code', 'control byte in response code',
                                    p.pos - 1)
            args = bytes(buf[start:p.pos])
    p.expect(b']', 'code')
    return (bytes(name), args)


def _uid_set(p: _P) -> list[int]:
    """uid-set -> flat ordered list (ranges expanded in the order given)."""
    tok = p.span(_DIGITS + b':,')
    if not tok:
        raise WireError('code', 'empty uid-set', p.pos)
    out: list[int] = []
    for part in tok.split(b','):
        if not part:
            raise WireError('code', 'bad uid-set %r' % tok, p.pos)
        if b':' in part:
            a, _, b = part.partition(b':')
            if not a.isdigit() or not b.isdigit():
                raise WireError('code', 'bad uid-set %r' % tok, p.pos)
            a, b = int(a), int(b)
            if abs(b - a) > 1000000:
                raise WireError('code', 'absurd uid range %r' % tok, p.pos)
            step = 1 if b >= a else -1
            out.extend(range(a, b + step, step))
        else:
            if not part.isdigit():
                raise WireError('code', 'bad uid-set %r' % tok, p.pos)
            out.append(int(part))
    if any(u < 1 for u in out):
        raise WireError('code', 'uid 0 in uid-set %r' % tok, p.pos)
    return out


def _resp_text(p: _P):
    code = None
    if p.peek() == 0x5b:
        start = p.pos
        try:
            code = _resp_code(p)
            if p.peek() == 0x20:
                p.pos += 1
            elif p.peek() != 0x0d:
                raise WireError('spacing', 'no SP after response code', p.pos)
        except WireError:
            # '[' is also a TEXT-CHAR: the grammar's other alternative is
            # plain text that happens to begin with a bracket
            code = None
            p.pos = start
    pos = p.pos
    text = p.text_to_crlf()
    if not text:
        # resp-text = ["[" resp-text-code "]" SP] text ; text = 1*TEXT-CHAR
        raise WireError('text', 'empty resp-text', pos)
    return code, text


_SECTION_RE = re.compile(
    rb'(BODY|BODY\.PEEK|BINARY|BINARY\.PEEK|BINARY\.SIZE)\Z', re.I)


_MSGTEXT = (b'HEADER.FIELDS.NOT', b'HEADER.FIELDS', b'HEADER', b'TEXT',
            b'MIME')


def _section(p: _P, base: bytes, names: list | None = None) -> None:
    """RFC 3501 `section` (RFC 3516 `section-binary` after BINARY):
    "[" [section-spec] "]" with header-list = "(" astring *(SP astring) ")".
    Decoded header field names are appended to *names*."""
    p.expect(b'[', 'fetch')
    binary = base.upper().startswith(b'BINARY')
    first = True
    while True:
        c = p.peek()
        if c == 0x5d:
            if not first:
                raise WireError('fetch', 'section ends with "."', p.pos)
            p.pos += 1
            return
        if 0x30 <= c <= 0x39:
            n = p.number()
            if n == 0:
                raise WireError('fetch', 'section part number 0', p.pos)
        elif binary:
            raise WireError('fetch', 'BINARY section is not a part path',
                            p.pos)
        else:
            word = p.span(b'ABCDEFGHIJKLMNOPQRSTUVWXYZabcdefghijklmnopqrstuv'
                          b'wxyz.').upper()
            if word not in _MSGTEXT:
                raise WireError('fetch', 'unknown section text %r' % word,
                                p.pos)
            if word == b'MIME' and first:
                raise WireError('fetch', 'MIME without a part number', p.pos)
            if word.startswith(b'HEADER.FIELDS'):
                p.expect(b' ', 'fetch')
                p.expect(b'(', 'fetch')
                while True:
                    val = p.astring()
                    if isinstance(val, Atom) and b']' in val:
                        raise WireError('fetch', 'header field name atom '
                                        'contains "]"', p.pos)
                    if names is not None:
                        names.append(bytes(val))
                    c = p.take()
                    if c == 0x29:
                        break
                    if c != 0x20:
                        raise WireError('fetch', 'header list: expected SP '
                                        'or ) got %r' % bytes([c]), p.pos - 1)
            p.expect(b']', 'fetch')
            return
        first = False
        c = p.take()
        if c == 0x5d:
            return
        if c != 0x2e:
            raise WireError('fetch', 'section: expected "." or "]" got %r'
                            % bytes([c]), p.pos - 1)
        first = False
        if p.peek() == 0x5d:
            raise WireError('fetch', 'section ends with "."', p.pos)


def section_header_names(item: bytes) -> list | None:
    """Decoded header field names of a FETCH item name such as
    ``BODY[HEADER.FIELDS (A "b c")]``; None if it has no header list."""
    idx = item.find(b'[')
    if idx < 0 or b'HEADER.FIELDS' not in item.upper():
        return None
    names: list = []
    _section(_P(item + b'\r\n', idx), item[:idx], names)
    return names


def _fetch_item_name(p: _P) -> bytes:
    name = p.span(b'ABCDEFGHIJKLMNOPQRSTUVWXYZabcdefghijklmnopqrstuvwxyz'
                  b'0123456789.-_')
    if not name:
        raise WireError('fetch', 'expected fetch item name got %r' %
                        bytes(p.buf[p.pos:p.pos + 10]), p.pos)
    if p.peek() == 0x5b:  # section
        start = p.pos
        _section(p, name)
        name += bytes(p.buf[start:p.pos])
        if p.peek() == 0x3c:  # <origin>
            p.pos += 1
            origin = p.number()
            p.expect(b'>')
            name += b'<%d>' % origin
    return name


def _addr_list(val, what: str, pos: int) -> None:
    if val is None:
        return
    if not isinstance(val, list) or not val:
        raise WireError('envelope', '%s: not NIL or non-empty list' % what,
                        pos)
    for addr in val:
        if not isinstance(addr, list) or len(addr) != 4:
            raise WireError('envelope', '%s: address is not a 4-list' % what,
                            pos)
        for f in addr:
            if f is not None and not isinstance(f, (QStr, Lit)):
                raise WireError('envelope', '%s: address field not nstring'
                                % what, pos)


def check_envelope(val, pos: int) -> None:
    if not isinstance(val, list) or len(val) != 10:
        raise WireError('envelope', 'not a 10-element list: %r' % (val,), pos)
    for i in (0, 1, 8, 9):
        if val[i] is not None and not isinstance(val[i], (QStr, Lit)):
            raise WireError('envelope', 'field %d not nstring' % i, pos)
    for i, what in zip(range(2, 8), ('from', 'sender', 'reply-to', 'to', 'cc',
                                     'bcc')):
        _addr_list(val[i], what, pos)


def _is_str(v) -> bool:
    return isinstance(v, (QStr, Lit))


def check_body(val, pos: int, depth: int = 0) -> None:
    """BODY / BODYSTRUCTURE shape (RFC 3501 `body`)."""
    if depth > 120:
        raise WireError('body', 'nesting too deep', pos)
    if not isinstance(val, list) or not val:
        raise WireError('body', 'body is not a non-empty list', pos)
    if isinstance(val[0], list):
        # multipart: 1*body SP media-subtype [ext]
        i = 0
        while i < len(val) and isinstance(val[i], list):
            check_body(val[i], pos, depth + 1)
            i += 1
        if i >= len(val) or not _is_str(val[i]):
            raise WireError('body', 'multipart without subtype string', pos)
        ext = val[i + 1:]
        if ext:
            # body-ext-mpart = body-fld-param [SP body-fld-dsp [SP
            #                  body-fld-lang [SP body-fld-loc ...]]]
            _check_params(ext[0], pos)
            _check_ext_tail(ext[1:], pos)
        return
    if len(val) < 7:
        raise WireError('body', 'single part with %d < 7 fields' % len(val),
                        pos)
    mtype, msub, params, cid, desc, enc, size = val[:7]
    if not _is_str(mtype) or not _is_str(msub):
        raise WireError('body', 'media type/subtype not strings', pos)
    _check_params(params, pos)
    for f in (cid, desc):
        if f is not None and not _is_str(f):
            raise WireError('body', 'id/description not nstring', pos)
    if not _is_str(enc):
        raise WireError('body', 'encoding not a string', pos)
    if not isinstance(size, int):
        raise WireError('body', 'size not a number: %r' % (size,), pos)
    rest = val[7:]
    if mtype.upper() == b'MESSAGE' and msub.upper() == b'RFC822':
        if len(rest) < 3:
            raise WireError('body', 'message/rfc822 without envelope/body/'
                            'lines', pos)
        check_envelope(rest[0], pos)
        check_body(rest[1], pos, depth + 1)
        if not isinstance(rest[2], int):
            raise WireError('body', 'message/rfc822 lines not a number', pos)
        ext = rest[3:]
    elif mtype.upper() == b'TEXT':
        if len(rest) < 1 or not isinstance(rest[0], int):
            raise WireError('body', 'text part without line count: %r' % (val[:9],), pos)
        ext = rest[1:]
    else:
        ext = rest
    if ext:
        # body-ext-1part = body-fld-md5 [SP body-fld-dsp [SP body-fld-lang
        #                  [SP body-fld-loc *(SP body-extension)]]]
        if ext[0] is not None and not _is_str(ext[0]):
            raise WireError('body', 'body-fld-md5 not an nstring: %r'
                            % (ext[0],), pos)
        _check_ext_tail(ext[1:], pos)


def _check_ext_tail(tail, pos: int) -> None:
    """[body-fld-dsp [body-fld-lang [body-fld-loc *body-extension]]]."""
    if len(tail) >= 1 and tail[0] is not None:
        dsp = tail[0]
        # body-fld-dsp = "(" string SP body-fld-param ")" / nil
        if not isinstance(dsp, list) or len(dsp) != 2 or \
                not _is_str(dsp[0]):
            raise WireError('body', 'body-fld-dsp not NIL or (string '
                            'params): %r' % (dsp,), pos)
        _check_params(dsp[1], pos)
    if len(tail) >= 2 and tail[1] is not None:
        lang = tail[1]
        # body-fld-lang = nstring / "(" string *(SP string) ")"
        if not _is_str(lang) and not (
                isinstance(lang, list) and lang
                and all(_is_str(x) for x in lang)):
            raise WireError('body', 'body-fld-lang not an nstring or string '
                            'list: %r' % (lang,), pos)
    if len(tail) >= 3 and tail[2] is not None and not _is_str(tail[2]):
        raise WireError('body', 'body-fld-loc not an nstring: %r'
                        % (tail[2],), pos)


def _check_params(params, pos: int) -> None:
    if params is None:
        return
    if not isinstance(params, list) or len(params) % 2 or not params:
        raise WireError('body', 'parameter list not NIL or string pairs', pos)
    for v in params:
        if not _is_str(v):
            raise WireError('body', 'parameter not a string: %r' % (v,), pos)


def _msg_att(p: _P) -> dict:
    """``(`` item SP value ... ``)`` of a FETCH response."""
    p.expect(b'(')
    out: dict[bytes, object] = {}
    if p.peek() == 0x29:
        raise WireError('fetch', 'empty msg-att list', p.pos)
    while True:
        name = _fetch_item_name(p)
        key = name.upper() if b'[' not in name else name
        p.sp()
        pos = p.pos
        base = name.split(b'[', 1)[0].upper()
        if base.endswith(b'.PEEK'):
            # msg-att-static has BODY section and BINARY section-binary;
            # the .PEEK spellings exist in requests only
            raise WireError('fetch', 'request-only item %r in a response'
                            % name, pos)
        if base == b'FLAGS':
            val = _flag_list(p)
        elif base in (b'UID', b'RFC822.SIZE', b'BINARY.SIZE', b'MODSEQ'):
            if base == b'MODSEQ':
                val = p.list_()
            else:
                val = p.number()
        elif base == b'INTERNALDATE':
            val = p.quoted()
            if not _DATE_RE.match(val):
                raise WireError('fetch', 'bad INTERNALDATE %r' % val, pos)
        elif base in (b'RFC822', b'RFC822.HEADER', b'RFC822.TEXT') or \
                b'[' in name:
            val = p.nstring()
        elif base == b'ENVELOPE':
            val = p.value()
            check_envelope(val, pos)
        elif base in (b'BODY', b'BODYSTRUCTURE'):
            val = p.value()
            check_body(val, pos)
        elif base in (b'EMAILID', b'THREADID'):
            if p.peek() == 0x28:
                val = p.list_()
                if len(val) != 1 or not isinstance(val[0], Atom):
                    raise WireError('fetch', 'bad object id', pos)
                val = bytes(val[0])
            else:
                p.expect(b'NIL')
                val = None
        else:
            val = p.value()
        if key in out:
            raise WireError('fetch', 'duplicate item %r' % key, pos)
        out[key] = val
        c = p.take()
        if c == 0x29:
            return out
        if c != 0x20:
            raise WireError('list', 'expected SP or ) in msg-att got %r'
                            % bytes([c]), p.pos - 1)


_DATE_RE = re.compile(
    rb'[ 0-3][0-9]-(Jan|Feb|Mar|Apr|May|Jun|Jul|Aug|Sep|Oct|Nov|Dec)-'
    rb'[0-9]{4} [0-2][0-9]:[0-5][0-9]:[0-6][0-9] [+-][0-9]{4}\Z')


def _untagged(p: _P) -> Resp:
    c = p.peek()
    if c in _DIGITS:
        num = p.number()
        p.sp()
        name = bytes(p.atom().upper())
        if name in (b'EXISTS', b'RECENT', b'EXPUNGE'):
            p.crlf()
            return Resp('data', b'*', name, num=num)
        if name == b'FETCH':
            p.sp()
            data = _msg_att(p)
            p.crlf()
            return Resp('data', b'*', name, num=num, data=data)
        raise WireError('syntax', 'unknown message-data %r' % name, p.pos)
    name = bytes(p.atom().upper())
    if name in _CONDS:
        if p.peek() == 0x0d:
            raise WireError('text', 'condition without text', p.pos)
        p.sp()
        code, text = _resp_text(p)
        return Resp('cond', b'*', name, code=code, text=text)
    if name == b'CAPABILITY':
        caps = []
        while p.peek() == 0x20:
            p.pos += 1
            caps.append(bytes(p.atom()))
        p.crlf()
        return Resp('data', b'*', name, data=caps)
    if name == b'FLAGS':
        p.sp()
        flags = _flag_list(p)
        p.crlf()
        return Resp('data', b'*', name, data=flags)
    if name in (b'LIST', b'LSUB'):
        p.sp()
        attrs = _flag_list(p)
        p.sp()
        if p.peek() == 0x22:
            sep = p.quoted()
            if len(sep) != 1:
                raise WireError('list-resp', 'delimiter %r is not one char'
                                % sep, p.pos)
        else:
            p.expect(b'NIL')
            sep = None
        p.sp()
        mbx = p.astring()
        p.crlf()
        return Resp('data', b'*', name, data=(attrs, sep, mbx))
    if name == b'STATUS':
        p.sp()
        mbx = p.astring()
        p.sp()
        items = p.list_()
        if len(items) % 2:
            raise WireError('status', 'odd status list', p.pos)
        data = {}
        for k, v in zip(items[::2], items[1::2]):
            if not isinstance(k, Atom):
                raise WireError('status', 'status attribute not an atom',
                                p.pos)
            if k.upper() == b'MAILBOXID':
                if not (isinstance(v, list) and len(v) == 1
                        and isinstance(v[0], Atom)):
                    raise WireError('status', 'bad MAILBOXID value', p.pos)
                v = bytes(v[0])
            elif not isinstance(v, int):
                raise WireError('status', 'status value not a number: %r'
                                % (v,), p.pos)
            data[bytes(k.upper())] = v
        p.crlf()
        return Resp('data', b'*', name, data=(mbx, data))
    if name == b'SEARCH':
        nums = []
        while p.peek() == 0x20:
            p.pos += 1
            nums.append(p.number())
        p.crlf()
        return Resp('data', b'*', name, data=nums)
    if name == b'ID':
        p.sp()
        if p.peek() == 0x28:
            items = p.list_()
            if len(items) % 2:
                raise WireError('id', 'odd ID parameter list', p.pos)
            for k, v in zip(items[::2], items[1::2]):
                if not _is_str(k) or not (v is None or _is_str(v)):
                    raise WireError('id', 'ID parameters must be strings',
                                    p.pos)
            data = items
        else:
            p.expect(b'NIL')
            data = None
        p.crlf()
        return Resp('data', b'*', name, data=data)
    # ESEARCH, NAMESPACE, ENABLED, ...: generic token sequence
    items = []
    while p.peek() == 0x20:
        p.pos += 1
        items.append(p.value())
    p.crlf()
    return Resp('data', b'*', name, data=items)


def parse_one(buf, pos: int = 0) -> tuple[Resp, int]:
    """Parse one response starting at *pos*.  Raises Incomplete or
    WireError."""
    p = _P(buf, pos)
    c = p.peek()
    if c == 0x2b:  # '+'
        p.pos += 1
        if p.peek() == 0x0d:
            p.crlf()
            resp = Resp('cont', b'+', text=b'')
        else:
            p.sp()
            text = p.text_to_crlf()
            resp = Resp('cont', b'+', text=text)
    elif c == 0x2a:  # '*'
        p.pos += 1
        p.sp()
        resp = _untagged(p)
    else:
        tag = p.span(_TAG_OK)
        if not tag:
            raise WireError('syntax', 'response starts with %r' %
                            bytes(buf[pos:pos + 12]), pos)
        p.sp()
        name = bytes(p.atom().upper())
        if name not in (b'OK', b'NO', b'BAD'):
            raise WireError('syntax', 'tagged response with condition %r'
                            % name, p.pos)
        if p.peek() == 0x0d:
            raise WireError('text', 'condition without text', p.pos)
        p.sp()
        code, text = _resp_text(p)
        resp = Resp('cond', tag, name, code=code, text=text)
    resp.start = pos
    resp.end = p.pos
    return resp, p.pos


class ResponseStream:
    """Incremental view of everything one client has received."""

    def __init__(self) -> None:
        self.pos = 0
        self.error: WireError | None = None
        self.count = 0

    def poll(self, buf) -> list[Resp]:
        out = []
        if self.error is not None:
            return out
        while self.pos < len(buf):
            try:
                resp, end = parse_one(buf, self.pos)
            except Incomplete:
                break
            except WireError as exc:
                self.error = exc
                break
            self.pos = end
            self.count += 1
            out.append(resp)
        return out

    def leftover(self, buf) -> bytes:
        return bytes(buf[self.pos:])
