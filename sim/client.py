"""Simulated IMAP client: turns symbolic actions into wire bytes, follows the
continuation handshakes, parses everything received with the strict parser
and keeps the shadow view (sim.shadow) that property C01 talks about.

Actions are plain dicts (JSON-able; byte strings are carried as latin-1 text).
"""

from __future__ import annotations

import base64
from collections import deque

from .shadow import Shadow
from .wire import ResponseStream, Resp

__all__ = ['Client', 'Cmd', 'encode_action', 'b', 's', 'enc_astring',
           'mutf7_encode', 'mutf7_decode']


def b(text) -> bytes:
    if isinstance(text, (bytes, bytearray)):
        return bytes(text)
    return text.encode('latin-1')


def s(data: bytes) -> str:
    return data.decode('latin-1')


# ---- independent modified UTF-7 (RFC 3501 5.1.3) ---------------------------

def mutf7_encode(name: str) -> bytes:
    out = bytearray()
    run: list[str] = []

    def flush():
        if run:
            raw = ''.join(run).encode('utf-16-be')
            enc = base64.b64encode(raw).rstrip(b'=').replace(b'/', b',')
            out.extend(b'&' + enc + b'-')
            run.clear()
    for ch in name:
        if 0x20 <= ord(ch) <= 0x7e:
            flush()
            if ch == '&':
                out.extend(b'&-')
            else:
                out.append(ord(ch))
        else:
            run.append(ch)
    flush()
    return bytes(out)


def mutf7_decode(data: bytes) -> str:
    out: list[str] = []
    i = 0
    n = len(data)
    while i < n:
        c = data[i]
        if c == 0x26:
            j = data.find(b'-', i)
            if j < 0:
                raise ValueError('unterminated shift')
            if j == i + 1:
                out.append('&')
            else:
                chunk = data[i + 1:j].replace(b',', b'/')
                chunk += b'=' * (-len(chunk) % 4)
                out.append(base64.b64decode(chunk).decode('utf-16-be'))
            i = j + 1
        else:
            out.append(chr(c))
            i += 1
    return ''.join(out)


# ---- encoding ------------------------------------------------------------------

_ATOM_SAFE = set(range(0x21, 0x7f)) - set(b'(){ %*"\\]')


def can_atom(val: bytes) -> bool:
    return bool(val) and all(c in _ATOM_SAFE for c in val)


def can_quote(val: bytes) -> bool:
    return not any(c in (0, 10, 13) or c > 0x7f for c in val)


class Parts:
    """Command bytes cut at synchronizing literals."""

    def __init__(self) -> None:
        self.parts: list[bytearray] = [bytearray()]

    def add(self, data: bytes) -> 'Parts':
        self.parts[-1] += data
        return self

    def string(self, val: bytes, spelling: str = 'auto',
               binary: bool = False) -> 'Parts':
        if spelling == 'auto':
            spelling = 'atom' if can_atom(val) else \
                'quoted' if can_quote(val) and len(val) < 200 else 'litplus'
        if spelling == 'atom' and not can_atom(val):
            spelling = 'quoted'
        if spelling == 'quoted' and not can_quote(val):
            spelling = 'litplus'
        if spelling == 'atom':
            self.add(val)
        elif spelling == 'quoted':
            self.add(b'"' + val.replace(b'\\', b'\\\\')
                     .replace(b'"', b'\\"') + b'"')
        elif spelling == 'litplus':
            self.add((b'~' if binary else b'') + b'{%d+}\r\n' % len(val))
            self.add(val)
        elif spelling == 'lit':
            self.add((b'~' if binary else b'') + b'{%d}\r\n' % len(val))
            self.parts.append(bytearray())
            self.add(val)
        elif spelling == 'litplus0':
            # number = 1*DIGIT: leading zeros are part of the grammar
            self.add((b'~' if binary else b'') + b'{%021d+}\r\n' % len(val))
            self.add(val)
        elif spelling == 'lit0':
            self.add((b'~' if binary else b'') + b'{%021d}\r\n' % len(val))
            self.parts.append(bytearray())
            self.add(val)
        else:
            raise ValueError(spelling)
        return self

    def done(self) -> list[bytes]:
        return [bytes(p) for p in self.parts]


def enc_astring(val: bytes, spelling: str = 'auto') -> bytes:
    p = Parts().string(val, 'quoted' if spelling == 'lit' else spelling)
    return b''.join(p.done())


def _mbx(action: dict, key: str = 'mailbox') -> bytes:
    if key + '_raw' in action:
        return b(action[key + '_raw'])
    return mutf7_encode(action[key])


def _flags(flags) -> bytes:
    return b'(' + b' '.join(b(f) for f in flags) + b')'


def encode_action(action: dict, tag: bytes) -> list[bytes]:
    """Wire bytes for one action, cut at synchronizing literals."""
    kind = action['kind']
    sp = action.get('spelling', 'auto')
    word = action.get('word')  # alternative spelling of the command word
    p = Parts()
    p.add(tag + b' ')
    uid = b'UID ' if action.get('uid') else b''

    def w(default: bytes) -> bytes:
        return b(word) if word else default
    if kind == 'raw':
        # full control: list of parts (first part is sent, rest on '+')
        parts = [b(x) for x in action['parts']]
        if action.get('tagged', True):
            parts[0] = tag + b' ' + parts[0]
        return parts
    if kind == 'login':
        p.add(w(b'LOGIN') + b' ')
        p.string(b(action['user']), sp).add(b' ')
        p.string(b(action['password']), action.get('spelling2', sp))
    elif kind == 'authenticate':
        p.add(w(b'AUTHENTICATE') + b' ' + b(action.get('mech', 'PLAIN')))
    elif kind in ('select', 'examine'):
        p.add(w(kind.upper().encode()) + b' ').string(_mbx(action), sp)
    elif kind in ('create', 'delete', 'subscribe', 'unsubscribe'):
        p.add(w(kind.upper().encode()) + b' ').string(_mbx(action), sp)
    elif kind == 'rename':
        p.add(w(b'RENAME') + b' ').string(_mbx(action), sp).add(b' ')
        p.string(_mbx(action, 'to'), action.get('spelling2', sp))
    elif kind in ('list', 'lsub'):
        p.add(w(kind.upper().encode()) + b' ')
        p.string(_mbx(action, 'ref'), sp if _mbx(action, 'ref') else 'quoted')
        p.add(b' ')
        pat = _mbx(action, 'pattern')
        if sp in ('auto', 'atom') and pat and all(
                c in _ATOM_SAFE or c in b'%*' for c in pat):
            p.add(pat)
        else:
            p.string(pat, action.get('spelling2', 'quoted')
                     if sp in ('auto', 'atom') else sp)
    elif kind == 'status':
        p.add(w(b'STATUS') + b' ').string(_mbx(action), sp)
        items = action.get('items') or ['MESSAGES', 'RECENT', 'UIDNEXT',
                                        'UIDVALIDITY', 'UNSEEN']
        p.add(b' (' + b' '.join(b(i) for i in items) + b')')
    elif kind == 'append':
        p.add(w(b'APPEND') + b' ').string(_mbx(action), sp)
        lit = action.get('literal', 'lit')
        for msg in action['msgs']:
            p.add(b' ')
            if msg.get('flags') is not None:
                p.add(_flags(msg['flags']) + b' ')
            if msg.get('date'):
                p.add(b'"' + b(msg['date']) + b'" ')
            p.string(b(msg['data']), lit, binary=bool(msg.get('binary')))
    elif kind == 'store':
        p.add(uid + w(b'STORE') + b' ' + b(action['set']) + b' ')
        p.add(b(action.get('op', '')) + b'FLAGS')
        if action.get('silent'):
            p.add(b'.SILENT')
        flags = action['flags']
        if action.get('bare_flags') and flags:
            p.add(b' ' + b' '.join(b(f) for f in flags))
        else:
            p.add(b' ' + _flags(flags))
    elif kind == 'expunge':
        if action.get('uid_set'):
            p.add(b'UID ' + w(b'EXPUNGE') + b' ' + b(action['uid_set']))
        else:
            p.add(w(b'EXPUNGE'))
    elif kind in ('copy', 'move'):
        p.add(uid + w(kind.upper().encode()) + b' ' + b(action['set']) + b' ')
        p.string(_mbx(action), sp)
    elif kind == 'fetch':
        p.add(uid + w(b'FETCH') + b' ' + b(action['set']) + b' ')
        attrs = action['attrs']
        if isinstance(attrs, str):
            p.add(b(attrs))
        else:
            p.add(b'(' + b' '.join(b(a) for a in attrs) + b')')
    elif kind == 'search':
        p.add(uid + w(b'SEARCH') + b' ')
        keys = action['keys']
        if isinstance(keys, str):
            p.add(b(keys))
        else:
            # list of tokens; ('str', value) tokens are spelled as strings
            first = True
            for tok in keys:
                if not first and not (isinstance(tok, str) and tok == ')') \
                        and not p.parts[-1].endswith(b'('):
                    p.add(b' ')
                first = False
                if isinstance(tok, (list, tuple)):
                    p.string(b(tok[1]), tok[0] if tok[0] != 'str' else sp)
                else:
                    p.add(b(tok))
    elif kind in ('noop', 'check', 'close', 'logout', 'capability', 'idle',
                  'starttls', 'unselect'):
        p.add(w(kind.upper().encode()))
    elif kind == 'id':
        params = action.get('params')
        if params is None:
            p.add(b'ID NIL')
        else:
            p.add(b'ID (')
            first = True
            for k, v in params:
                if not first:
                    p.add(b' ')
                first = False
                p.string(b(k), 'quoted').add(b' ')
                if v is None:
                    p.add(b'NIL')
                else:
                    p.string(b(v), 'quoted')
            p.add(b')')
    else:
        raise ValueError('unknown action kind %r' % kind)
    p.add(b(action.get('trail', '')) + b'\r\n')
    return p.done()


# ---- the client --------------------------------------------------------------

class Cmd:

    __slots__ = ('tag', 'action', 'parts', 'untagged', 'result', 'conts',
                 'seq_invoke', 'seq_return', 'auth_responses', 'idling',
                 'done_sent', 'kind', 'nonuid_hide', 'extra')

    def __init__(self, tag: bytes, action: dict, parts: list[bytes]) -> None:
        self.tag = tag
        self.action = action
        self.kind = action['kind']
        self.parts = deque(parts)
        self.untagged: list[Resp] = []
        self.result: Resp | None = None
        self.conts: list[Resp] = []
        self.seq_invoke = 0
        self.seq_return = 0
        self.auth_responses = deque(b(x) for x in action.get('responses', ()))
        self.idling = False
        self.done_sent = False
        # non-UID FETCH/STORE/SEARCH: no EXPUNGE may be sent while answering
        self.nonuid_hide = self.kind in ('fetch', 'store', 'search') \
            and not action.get('uid')
        self.extra: dict = {}

    @property
    def ok(self) -> bool:
        return self.result is not None and self.result.name == b'OK'

    @property
    def cond(self) -> str | None:
        return None if self.result is None else self.result.name.decode()


class Client:

    def __init__(self, world, sid: int, proto: str = 'imap',
                 peer: str = '1.2.3.4', glass: bool = True) -> None:
        self.world = world
        self.sid = sid
        self.proto = proto
        self.conn = world.connect(proto, peer)
        self.stream = ResponseStream()
        self.pending: deque[Cmd] = deque()
        self.history: list[Cmd] = []
        self.unsolicited: list[Resp] = []
        self.log: list[Resp] = []
        self.greeting: Resp | None = None
        self.tagno = 0
        self.shadow = Shadow(self)
        self.violations: list[dict] = []
        self.bye_seen = False
        self.last_capability: list[bytes] | None = None
        self.glass = glass
        self.chunk_rng = None
        world.pumps.append(self.pump)

    # -- sending -------------------------------------------------------------

    def _send(self, data: bytes) -> None:
        chunks = None
        rng = self.chunk_rng
        if rng is not None and len(data) > 1:
            style = rng.randrange(4)
            if style == 1:      # line by line
                chunks = [len(x) for x in data.splitlines(True)]
            elif style == 2:    # a few random cuts
                cuts = sorted(rng.randrange(1, len(data))
                              for _ in range(rng.randrange(1, 4)))
                chunks, prev = [], 0
                for c in cuts:
                    if c > prev:
                        chunks.append(c - prev)
                        prev = c
            elif style == 3 and len(data) <= 64:   # byte by byte
                chunks = [1] * len(data)
            if chunks:
                self.world.probe('chunked_send')
        self.conn.send(data, chunks)

    def start(self, action: dict) -> Cmd | None:
        kind = action['kind']
        if kind == 'done':
            return self.send_done(action)
        if kind == 'cont_data':     # free-form continuation line
            self._send(b(action['data']))
            return None
        self.tagno += 1
        tag = b(action['tag']) if 'tag' in action else \
            b'%c%d' % (ord('a') + self.sid % 26, self.tagno)
        parts = encode_action(action, tag)
        cmd = Cmd(tag, action, parts)
        cmd.seq_invoke = self.world.tick()
        self.world.log('cmd', self.sid, kind, tag)
        self.pending.append(cmd)
        self.history.append(cmd)
        self.shadow.on_invoke(cmd)
        if action.get('eager'):
            while cmd.parts:
                self._send(cmd.parts.popleft())
        else:
            self._send(cmd.parts.popleft())
        return cmd

    def send_done(self, action: dict | None = None) -> Cmd | None:
        for cmd in self.pending:
            if cmd.kind == 'idle' and not cmd.done_sent:
                cmd.done_sent = True
                line = b((action or {}).get('line', 'DONE')) + b'\r\n'
                self._send(line)
                self.world.log('done', self.sid)
                return cmd
        return None

    @property
    def idle(self) -> bool:
        return not self.pending

    @property
    def current(self) -> Cmd | None:
        return self.pending[0] if self.pending else None

    @property
    def idling(self) -> bool:
        cur = self.current
        return cur is not None and cur.kind == 'idle' and cur.idling \
            and not cur.done_sent

    # -- receiving -----------------------------------------------------------

    def pump(self) -> None:
        if self.stream.pos >= len(self.conn.out):
            return
        for resp in self.stream.poll(self.conn.out):
            self._on_response(resp)
        err = self.stream.error
        if err is not None and not getattr(self, '_wire_reported', False):
            self._wire_reported = True
            ctx = bytes(self.conn.out[max(0, err.pos - 60):err.pos + 40])
            self.violate('C07', 'wire.' + err.clause, err.detail,
                         context=s(ctx))

    def _on_response(self, resp: Resp) -> None:
        cur = self.current
        self.log.append(resp)
        if self.greeting is None and resp.tag == b'*' and resp.kind == 'cond':
            self.greeting = resp
            self._note_caps(resp)
            if resp.name == b'BYE':
                self.bye_seen = True
            return
        if resp.kind == 'cont':
            if cur is None:
                self.unsolicited.append(resp)
                return
            cur.conts.append(resp)
            if cur.parts:
                self._send(cur.parts.popleft())
            elif cur.kind == 'authenticate' and cur.auth_responses:
                self._send(cur.auth_responses.popleft() + b'\r\n')
            elif cur.kind == 'idle':
                cur.idling = True
                cur.extra['idle_seq'] = self.world.tick()
                self.shadow.on_idle_start(cur)
            return
        if resp.tagged:
            match = None
            for cmd in self.pending:
                if cmd.tag == resp.tag:
                    match = cmd
                    break
            if match is None:
                self.unsolicited.append(resp)
                return
            match.result = resp
            match.seq_return = self.world.tick()
            self.pending.remove(match)
            self._note_caps(resp)
            self.shadow.on_complete(match)
            return
        # untagged
        if resp.kind == 'cond' and resp.name == b'BYE':
            self.bye_seen = True
        if resp.name == b'CAPABILITY':
            self.last_capability = list(resp.data)
        self._note_caps(resp)
        if cur is not None:
            cur.untagged.append(resp)
        else:
            self.unsolicited.append(resp)
        self.shadow.on_untagged(resp, cur)

    def _note_caps(self, resp: Resp) -> None:
        if resp.code and resp.code[0] == b'CAPABILITY':
            self.last_capability = list(resp.code[1])

    def violate(self, prop: str, clause: str, detail: str, **kw) -> None:
        v = {'property': prop, 'clause': clause, 'detail': detail,
             'session': self.sid, 'seq': self.world.seq}
        cur = self.current
        if cur is not None and cur.kind == 'idle' and cur.idling:
            v['during_idle'] = True
        v.update(kw)
        self.violations.append(v)
