"""One simulated universe: loop, clock, backend, servers, connections, the
scheduler that decides every interleaving, and the event log whose digest makes
"same case => same execution" checkable.
"""

from __future__ import annotations

import asyncio
import hashlib
import os
import random
import shutil
import ssl
import tempfile
import traceback
import weakref
from argparse import Namespace

from . import env
from .loop import SimLoop, HangDetected
from .stream import SimConn

__all__ = ['World', 'HarnessError']

_SSL = None
SCRATCH_ROOT = '/dev/shm'


class HarnessError(Exception):
    """Something is wrong with the machinery (never reported as VIOLATION)."""


class _Args(Namespace):

    def __getattr__(self, key: str):
        return None


def _ssl_context():
    global _SSL
    if _SSL is None:
        _SSL = ssl.SSLContext(ssl.PROTOCOL_TLS_SERVER)
    return _SSL


class World:

    MAX_MOVES = 200000

    def __init__(self, config: dict, seed: int = 0, trace: bool = False):
        env.install()
        env.reset_process_state(seed)
        env.set_current(self)
        self.cfg = dict(config)
        self.seed = seed
        self.clock = env.CLOCK
        self.loop = SimLoop(self.clock)
        self._digest = hashlib.sha256()
        self.trace = [] if trace else None
        self._tick = 0
        self.probes: dict[str, int] = {}
        self.fired: dict[str, int] = {}
        self.armed: set[str] = set(config.get('buggify', ()))
        self.buggify_p = float(config.get('buggify_p', 0.3))
        self.sched_rng: random.Random | None = None
        self.perm_rng: random.Random | None = None
        self.conns: list[SimConn] = []
        self.pumps: list = []
        self.states = weakref.WeakValueDictionary()
        self.server_errors: list[dict] = []
        self.moves = 0
        self.scratch: str | None = None
        self.fs = None
        self.backend = config.get('backend', 'dict')
        self.users = config.get('users') or [
            {'name': 'user', 'password': 'pass'}]
        self.imap_server = None
        self.sieve_server = None
        self.login = None
        self.config = None
        self.closed = False
        self._setup()

    # ---- logging / determinism ------------------------------------------

    def tick(self) -> int:
        self._tick += 1
        return self._tick

    @property
    def seq(self) -> int:
        return self._tick

    def log(self, kind: str, *args) -> None:
        rec = (kind,) + args
        self._digest.update(repr(rec).encode('utf-8', 'backslashreplace'))
        if self.trace is not None:
            self.trace.append((self._tick, round(self.clock.now, 6)) + rec)

    def digest(self) -> str:
        return self._digest.hexdigest()

    def probe(self, name: str, n: int = 1) -> None:
        self.probes[name] = self.probes.get(name, 0) + n

    def buggify(self, kind: str) -> bool:
        if kind not in self.armed or self.sched_rng is None:
            return False
        if self.sched_rng.random() < self.buggify_p:
            self.fired[kind] = self.fired.get(kind, 0) + 1
            return True
        return False

    def permute(self, kind: str, items: list) -> list:
        rng = self.perm_rng
        if rng is None or kind not in self.armed:
            return items
        items = list(items)
        rng.shuffle(items)
        if len(items) > 1:
            self.fired[kind] = self.fired.get(kind, 0) + 1
        return items

    def on_server_log(self, record, exc) -> None:
        info = {'msg': record.getMessage()}
        if exc is not None:
            info['exception'] = type(exc).__name__
            info['site'] = innermost_pymap_frame(exc)
        self.server_errors.append(info)

    # ---- setup ------------------------------------------------------------

    def run_coro(self, coro, horizon: float = 5.0):
        """Run a harness coroutine to completion inside the loop."""
        task = self.loop.create_task(coro)
        self.loop.run_quiet(self.clock.now + horizon)
        if not task.done():
            task.cancel()
            self.loop.run_quiet(self.clock.now)
            raise HarnessError('setup coroutine did not finish')
        return task.result()

    def _setup(self) -> None:
        from pysasl.hashing import BuiltinHash
        from pymap.concurrent import Subsystem
        cfg = self.cfg
        common = dict(
            host=None, port=143,
            hash_context=BuiltinHash(hash_name='sha1', salt_len=0, rounds=1),
            invalid_user_sleep=cfg.get('invalid_user_sleep', 0.3),
            cpu_subsystem=Subsystem.for_asyncio(),
            subsystem=Subsystem.for_asyncio(),
            ssl_context=_ssl_context(),
            tls_enabled=bool(cfg.get('tls', False)),
            bad_command_limit=cfg.get('bad_command_limit', 5),
            max_append_len=cfg.get('max_append_len', 1000000000),
            disable_idle=False)
        args = _Args()
        if self.backend == 'dict':
            from pymap.backend.dict import Config, Login
            demo = bool(cfg.get('demo_data', False))
            self.config = Config(
                args, demo_data=demo,
                demo_user=self.users[0]['name'],
                demo_password=self.users[0]['password'],
                admin_key=b'k' * 16, **common)
            self.login = Login(self.config)
        elif self.backend == 'maildir':
            from pymap.backend.maildir import Config, Login
            self.scratch = cfg.get('scratch_dir') or tempfile.mkdtemp(
                prefix='pymap-verif-%d-' % os.getpid(), dir=SCRATCH_ROOT)
            base = os.path.join(self.scratch, 'base')
            os.makedirs(base, exist_ok=True)
            self._old_tempdir = tempfile.tempdir
            tempfile.tempdir = os.path.join(self.scratch, 'tmp')
            os.makedirs(tempfile.tempdir, exist_ok=True)
            from .fs import SimFS
            self.fs = SimFS(self, self.scratch)
            self.fs.permute = 'listdir' in self.armed
            if cfg.get('cross_device_tmp'):
                self.fs.xdev_dirs = [tempfile.tempdir]
            self.fs.install()
            self.config = Config(
                args, base_dir=base, layout=cfg.get('layout', '++'),
                colon=None, **common)
            self.login = Login(self.config)
        else:
            raise HarnessError('unknown backend %r' % self.backend)
        self.config.apply_context()
        if not cfg.get('skip_users'):
            self.run_coro(self._add_users())
            if self.backend == 'maildir' and cfg.get('keywords'):
                # pre-seeded dovecot-keywords in every user's INBOX
                for user in self.users:
                    home = os.path.join(self.scratch, 'base', user.get(
                        'mailbox_path', user['name']))
                    # through SimFS, so that the directories carry virtual
                    # mtimes like everything the backend creates itself
                    for sub in ('', 'cur', 'new', 'tmp'):
                        path = os.path.join(home, sub)
                        if not os.path.isdir(path):
                            self.fs.os.mkdir(path, 0o700)
                    with self.fs.open(os.path.join(home, 'dovecot-keywords'),
                                      'w') as fp:
                        for i, kw in enumerate(cfg['keywords']):
                            fp.write('%d %s\n' % (i, kw))
        from pymap.imap import IMAPServer
        from pymap.sieve.manage import ManageSieveServer
        self.imap_server = IMAPServer(self.login, self.config)
        self.sieve_server = ManageSieveServer(self.login, self.config)

    async def _add_users(self) -> None:
        from pymap.user import Passwords, UserMetadata
        passwords = Passwords(self.config)
        for user in self.users:
            name = user['name']
            roles = frozenset(user.get('roles', ()))
            if user.get('disabled'):
                hashed = None
            else:
                hashed = await passwords.hash_password(user['password'])
            if self.backend == 'dict':
                from pymap.backend.dict import Identity
                ident = Identity(name, self.login, None, {'admin'})
                meta = UserMetadata(self.config, name, password=hashed,
                                    roles=roles)
            else:
                from pymap.backend.maildir import Identity
                from pymap.frozen import frozendict
                ident = Identity(self.config, self.login.tokens, name, None,
                                 {'admin'})
                meta = UserMetadata(
                    self.config, name, password=hashed, roles=roles,
                    params=frozendict({'mailbox_path': user.get(
                        'mailbox_path', name)}))
            await ident.set(meta)

    # ---- connections ------------------------------------------------------

    def connect(self, proto: str = 'imap', peer: str = '1.2.3.4') -> SimConn:
        from proxyprotocol.sock import SocketInfoLocal
        conn = SimConn(self, len(self.conns), peer)
        self.conns.append(conn)
        server = self.imap_server if proto == 'imap' else self.sieve_server
        self.log('connect', conn.cid, proto, peer)
        conn.task = self.loop.create_task(
            server(conn.reader, conn, SocketInfoLocal(conn)))
        return conn

    # ---- the scheduler ------------------------------------------------------

    def run(self, horizon: float = 2.0, rng: random.Random | None = None,
            faults: list | None = None) -> None:
        """Run until quiescent: no ready handle, no undelivered input, no
        timer inside the horizon (held drains may persist).  Every choice is
        drawn from *rng*; with ``rng=None`` everything is delivered at once,
        FIFO."""
        self.sched_rng = rng
        self.perm_rng = rng
        loop = self.loop
        deadline = self.clock.now + horizon
        faults = sorted(faults or [], key=lambda f: f.get('at', 0))
        fi = 0
        local = 0
        while True:
            for pump in self.pumps:
                pump()
            while fi < len(faults) and faults[fi].get('at', 0) <= local:
                self._apply_fault(faults[fi])
                fi += 1
            moves = []
            if loop.has_ready:
                moves.append(('it', None))
            for conn in self.conns:
                if conn.pending_input:
                    moves.append(('d', conn))
                if conn.held and conn.auto_release:
                    moves.append(('r', conn))
            if not moves:
                when = loop.next_timer()
                if when is not None and when <= deadline:
                    self.log('timer', round(when, 6))
                    self._step()
                    local += 1
                    continue
                if fi < len(faults):
                    # faults scheduled later than the step lasted: apply now
                    self._apply_fault(faults[fi])
                    fi += 1
                    continue
                break
            if rng is None:
                kind, conn = next((m for m in moves if m[0] == 'd'),
                                  moves[0])
            else:
                weights = [3 if m[0] == 'it' else 2 if m[0] == 'd' else 1
                           for m in moves]
                kind, conn = rng.choices(moves, weights)[0]
            if kind == 'it':
                self._step()
            elif kind == 'd':
                conn.deliver_one()
            else:
                conn.auto_release = False
                conn.set_hold(False)
            local += 1
            self.moves += 1
            if self.moves > self.MAX_MOVES:
                raise HarnessError('move budget exhausted')
        loop.advance_to(deadline)
        for pump in self.pumps:
            pump()
        self.sched_rng = None
        self.perm_rng = None

    def _step(self) -> None:
        self.log('it')
        self.loop.step()

    def _apply_fault(self, fault: dict) -> None:
        kind = fault['kind']
        conn = self.conns[fault['conn']] if 'conn' in fault else None
        self.fired['fault:' + kind] = self.fired.get('fault:' + kind, 0) + 1
        self.log('fault', kind, fault.get('conn'))
        if kind == 'cancel':
            if conn.task is not None and not conn.task.done():
                conn.task.cancel()
        elif kind == 'reset':
            conn.reset()
        elif kind == 'eof':
            conn.inbox.clear()
            conn.half_close()
        elif kind == 'hold':
            conn.hold = True
            conn.auto_release = bool(fault.get('auto', True))
        elif kind == 'unhold':
            conn.set_hold(False)
        elif kind == 'clock_jump':
            self.clock.now += float(fault.get('dt', 1.0))
        elif kind == 'extlock':
            self.ext_lock(fault.get('mailbox', 'INBOX'), fault.get('user'),
                          float(fault.get('hold', 0.1)))
        elif kind == 'deliver':
            self.deliver(fault['data'], fault.get('mailbox', 'INBOX'),
                         fault.get('user'), fault.get('subdir', 'new'),
                         fault.get('info', ''))
        else:
            raise HarnessError('unknown fault kind %r' % kind)

    # ---- the delivery agent (maildir only) ----------------------------------

    def _folder(self, mailbox: str, user: str | None):
        name = user or self.users[0]['name']
        rec = next((u for u in self.users if u['name'] == name), None)
        if rec is None or self.fs is None:
            return None
        home = os.path.join(self.scratch, 'base',
                            rec.get('mailbox_path', name))
        if mailbox.upper() == 'INBOX':
            return home
        if self.cfg.get('layout', '++') == '++':
            return os.path.join(home, '.' + mailbox)
        return os.path.join(home, mailbox)

    def uid_by_file(self, mailbox: str = 'INBOX',
                    user: str | None = None) -> dict[str, int]:
        """The folder's UID list read straight from the store: file name
        up to the first ':' -> UID.  An observation for oracles (which UID
        did a delivered file get), not an operation: read with the real
        ``open`` and not logged."""
        import builtins
        folder = self._folder(mailbox, user)
        out: dict[str, int] = {}
        if folder is None:
            return out
        try:
            with builtins.open(os.path.join(folder, 'dovecot-uidlist'),
                               'r', encoding='latin-1') as fp:
                lines = fp.read().splitlines()[1:]
        except OSError:
            return out
        for line in lines:
            before, sep, filename = line.partition(':')
            if not sep:
                continue
            try:
                out[filename.strip().split(':', 1)[0]] = \
                    int(before.split(' ')[0])
            except ValueError:
                continue
        return out

    def ext_lock(self, mailbox: str = 'INBOX', user: str | None = None,
                 hold: float = 0.1,
                 name: str = 'dovecot-uidlist.lock') -> bool:
        """Another process (a second server, dovecot) takes the folder's
        lock file and keeps it for *hold* virtual seconds.  Sessions that
        need it poll with growing delays, so whoever polls first after the
        release goes first: the window between a session's message-file
        write and its UID-list update gets as long as a whole command of
        another session."""
        folder = self._folder(mailbox, user)
        if folder is None or not os.path.isdir(folder):
            return False
        path = os.path.join(folder, name)
        if os.path.exists(path):
            return False
        with self.fs.open(path, 'w'):
            pass
        self.log('extlock', mailbox, round(hold, 3))

        def release() -> None:
            if os.path.exists(path):
                self.fs.os.remove(path)
            self.log('extlock-release', mailbox)
        self.loop.call_later(hold, release)
        return True

    def deliver(self, data: str, mailbox: str = 'INBOX',
                user: str | None = None, subdir: str = 'new',
                info: str = '') -> bool:
        """What an MDA does behind the server's back: write the message
        under tmp/ of the folder and rename it into new/ (or cur/ with an
        info suffix).  Goes through SimFS, so it is logged, carries virtual
        mtimes and is a crash point like any other mutation.  Only INBOX and
        top-level folders that already exist; returns False otherwise."""
        if self.fs is None:
            return False
        name = user or self.users[0]['name']
        rec = next((u for u in self.users if u['name'] == name), None)
        if rec is None:
            return False
        home = os.path.join(self.scratch, 'base',
                            rec.get('mailbox_path', name))
        if mailbox.upper() == 'INBOX':
            folder = home
        elif self.cfg.get('layout', '++') == '++':
            folder = os.path.join(home, '.' + mailbox)
        else:
            folder = os.path.join(home, mailbox)
        if not all(os.path.isdir(os.path.join(folder, sub))
                   for sub in ('tmp', 'new', 'cur')):
            return False
        self._delivered = getattr(self, '_delivered', 0) + 1
        base = '%d.M%dP1.mda' % (int(self.clock.now), self._delivered)
        tmp = os.path.join(folder, 'tmp', base)
        with self.fs.open(tmp, 'wb') as fp:
            fp.write(data.encode('latin-1'))
        final = base if subdir == 'new' else base + ':2,' + info
        self.fs.os.rename(tmp, os.path.join(folder, subdir, final))
        self.log('deliver', name, mailbox, subdir, final)
        if not hasattr(self, 'deliveries'):
            self.deliveries = []
        self.deliveries.append({'seq': self.seq, 'mailbox': mailbox,
                                'subdir': subdir, 'file': final,
                                'data': data})
        return True

    # ---- teardown -----------------------------------------------------------

    def close(self) -> None:
        if self.closed:
            return
        self.closed = True
        try:
            self.loop.watchdog = False
            self.loop.shutdown()
        finally:
            if self.fs is not None:
                self.fs.uninstall()
                tempfile.tempdir = getattr(self, '_old_tempdir', None)
            if self.scratch and not self.cfg.get('keep_scratch'):
                shutil.rmtree(self.scratch, ignore_errors=True)
            env.set_current(None)


def innermost_pymap_frame(exc: BaseException) -> str:
    """``file:function`` of the innermost frame under pymap/ (no line
    numbers, so unrelated edits do not change a signature)."""
    site = '?'
    tb = exc.__traceback__
    for frame, _ in traceback.walk_tb(tb):
        fn = frame.f_code.co_filename
        idx = fn.rfind('/pymap/')
        if idx >= 0:
            name = getattr(frame.f_code, 'co_qualname', frame.f_code.co_name)
            site = 'pymap/' + fn[idx + 7:] + ':' + name
    return site
