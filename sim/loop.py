"""Virtual-time asyncio event loop driven from the outside.

The loop keeps asyncio's contract (FIFO ready queue; one iteration runs exactly
the handles that were ready when it began) but has no selector and no real
clock.  Nothing ever blocks: the harness calls :meth:`SimLoop.step` to run one
iteration and decides between iterations which external events (input chunks,
released drains, resets, cancellations) become visible.  When nothing is ready
the clock jumps to the next timer.
"""

from __future__ import annotations

import asyncio
import heapq
import signal
import threading
from asyncio import events

__all__ = ['SimLoop', 'VClock', 'HangDetected', 'EPOCH']

#: virtual wall clock at loop time 0 (2024-01-15 12:00:00 UTC)
EPOCH = 1705320000.0


class HangDetected(BaseException):
    """Raised by the wall-clock watchdog inside a callback that does not
    return (an infinite loop in server code)."""


class VClock:
    """The one clock: monotonic ``now`` plus a fixed wall offset."""

    def __init__(self) -> None:
        self.now = 0.0
        self.wall_offset = EPOCH

    def reset(self) -> None:
        self.now = 0.0
        self.wall_offset = EPOCH

    def time(self) -> float:
        return self.wall_offset + self.now


class _NoSelector:

    def __init__(self, loop: 'SimLoop') -> None:
        self._loop = loop

    def select(self, timeout=None):
        if timeout is not None and timeout > 0:
            self._loop.clock.now += timeout
        return []

    def close(self) -> None:
        pass


def _on_alarm(signum, frame):  # pragma: no cover - only on a real hang
    raise HangDetected()


class SimLoop(asyncio.BaseEventLoop):

    #: wall seconds one loop iteration may take before it counts as a hang
    WATCHDOG_S = 5.0

    def __init__(self, clock: VClock) -> None:
        super().__init__()
        self.clock = clock
        self._selector = _NoSelector(self)
        self._thread_id = threading.get_ident()
        self.iterations = 0
        self.errors: list[dict] = []
        self.set_exception_handler(self._record_error)
        self.watchdog = True
        self._clock_resolution = 1e-9

    # -- BaseEventLoop plumbing -------------------------------------------

    def time(self) -> float:
        return self.clock.now

    def call_at(self, when, callback, *args, context=None):
        # timers due at the same virtual instant would fire in insertion
        # order; a seeded sub-microsecond jitter makes their order one more
        # scheduler decision (buggify kind 'timer_ties')
        from . import env
        world = env.CURRENT
        if world is not None and 'timer_ties' in world.armed and \
                world.sched_rng is not None:
            when += world.sched_rng.random() * 1e-6
        return super().call_at(when, callback, *args, context=context)

    def _process_events(self, event_list) -> None:
        pass

    def _write_to_self(self) -> None:
        pass

    def _record_error(self, loop, context) -> None:
        exc = context.get('exception')
        self.errors.append({'message': context.get('message'),
                            'exception': repr(exc)})

    # -- driving ------------------------------------------------------------

    @property
    def has_ready(self) -> bool:
        return bool(self._ready)

    def next_timer(self) -> float | None:
        """Deadline of the earliest live timer, or None."""
        sched = self._scheduled
        while sched and sched[0]._cancelled:
            handle = heapq.heappop(sched)
            handle._scheduled = False
            self._timer_cancelled_count -= 1
        if self._timer_cancelled_count < 0:
            self._timer_cancelled_count = 0
        return sched[0]._when if sched else None

    def step(self) -> None:
        """Run exactly one loop iteration (jumping the clock to the next
        timer first if nothing is ready)."""
        self.iterations += 1
        prev = events._get_running_loop()
        events._set_running_loop(self)
        if self.watchdog:
            signal.setitimer(signal.ITIMER_REAL, self.WATCHDOG_S)
        try:
            self._run_once()
        finally:
            if self.watchdog:
                signal.setitimer(signal.ITIMER_REAL, 0)
            events._set_running_loop(prev)

    def busy(self, horizon: float) -> bool:
        """True if there is ready work, or a timer due before *horizon*."""
        if self._ready:
            return True
        when = self.next_timer()
        return when is not None and when <= horizon

    def run_quiet(self, horizon: float, max_steps: int = 100000) -> int:
        """Step until nothing is ready and no timer is due by *horizon*."""
        n = 0
        while self.busy(horizon):
            self.step()
            n += 1
            if n >= max_steps:
                raise RuntimeError('step budget exhausted')
        return n

    def advance_to(self, when: float) -> None:
        if when > self.clock.now:
            self.clock.now = when

    def shutdown(self) -> None:
        """Cancel everything still pending and close."""
        prev = events._get_running_loop()
        events._set_running_loop(self)
        try:
            for _ in range(50):
                tasks = [t for t in asyncio.all_tasks(self) if not t.done()]
                if not tasks:
                    break
                for t in tasks:
                    t.cancel()
                for _ in range(200):
                    if not self._ready:
                        break
                    self._run_once()
        finally:
            events._set_running_loop(prev)
        self._ready.clear()
        self._scheduled.clear()
        self._closed = True


def install_watchdog() -> None:
    signal.signal(signal.SIGALRM, _on_alarm)
