"""In-memory connection between a simulated client and the real server.

Server side: a real ``asyncio.StreamReader`` (so ``readline``/``readexactly``
and the 64 KiB limit are the stdlib's) and a duck-typed writer.  Client side:
plain method calls from the harness; the scheduler decides chunking, delivery
instants, when ``drain()`` is released, EOF and reset.
"""

from __future__ import annotations

import asyncio
import socket
from collections import deque

__all__ = ['SimConn']


class _Sock:

    def __init__(self, fd: int) -> None:
        self.fd = fd
        self.family = socket.AF_INET
        self.type = socket.SOCK_STREAM

    def fileno(self) -> int:
        return self.fd


class SimConn:
    """One TCP connection.  The object itself is the ``writer``."""

    def __init__(self, world, cid: int, peer: str = '1.2.3.4') -> None:
        self.world = world
        self.loop = world.loop
        self.cid = cid
        self.reader = asyncio.StreamReader(limit=2 ** 16, loop=self.loop)
        self._sock = _Sock(100 + cid)
        self._peer = (peer, 40000 + cid)
        # client -> server bytes not yet delivered to the reader
        self.inbox: deque[bytes] = deque()
        self.inbox_eof = False
        # server -> client
        self.out = bytearray()
        self.out_marks: list[tuple[int, int]] = []  # (offset, event seq)
        self.server_closed = False
        self.client_reset = False
        self.client_eof = False
        self.tls = False
        # back-pressure
        self.hold = False
        self.auto_release = False
        self._drain_waiters: list[asyncio.Future] = []
        self.drains = 0
        self.drains_held = 0
        self.task: asyncio.Task | None = None

    # ---- writer API used by pymap ----------------------------------------

    def write(self, data) -> None:
        if self.server_closed or self.client_reset:
            return
        data = bytes(data)
        if not data:
            return
        self.out_marks.append((len(self.out), self.world.tick()))
        self.out += data
        self.world.log('w', self.cid, data)

    async def drain(self) -> None:
        self.drains += 1
        exc = self.reader.exception()
        if exc is not None:
            raise exc
        if self.client_reset:
            raise ConnectionResetError('Connection lost')
        if self.server_closed:
            await asyncio.sleep(0)
            return
        if self.hold:
            self.drains_held += 1
            fut = self.loop.create_future()
            self._drain_waiters.append(fut)
            self.world.log('drain-held', self.cid)
            self.world.probe('drain_held')
            await fut
        elif self.world.buggify('drain_yield'):
            await asyncio.sleep(0)

    def close(self) -> None:
        if not self.server_closed:
            self.server_closed = True
            self.world.log('close', self.cid)

    def is_closing(self) -> bool:
        return self.server_closed

    async def wait_closed(self) -> None:
        return None

    async def start_tls(self, ssl_context, **kw) -> None:
        self.tls = True
        self.world.log('tls', self.cid)

    def get_extra_info(self, name: str, default=None):
        if name == 'socket':
            return self._sock
        if name == 'peername':
            return self._peer
        if name == 'sockname':
            return ('5.6.7.8', 143)
        return default

    # ---- client side -------------------------------------------------------

    def send(self, data: bytes, chunks: list[int] | None = None) -> None:
        """Queue *data* for delivery, cut at the given chunk lengths."""
        if not data:
            return
        if not chunks:
            self.inbox.append(data)
            return
        pos = 0
        for n in chunks:
            if pos >= len(data):
                break
            self.inbox.append(data[pos:pos + n])
            pos += n
        if pos < len(data):
            self.inbox.append(data[pos:])

    def deliver_one(self) -> bool:
        """Make the next queued chunk visible to the server."""
        if self.client_reset:
            self.inbox.clear()
            return False
        if self.inbox:
            chunk = self.inbox.popleft()
            self.world.log('d', self.cid, chunk)
            if self.reader.exception() is None and not self.reader.at_eof() \
                    and not self.reader._eof:
                self.reader.feed_data(chunk)
            return True
        if self.inbox_eof and not self.client_eof:
            self.client_eof = True
            self.world.log('eof', self.cid)
            if self.reader.exception() is None:
                self.reader.feed_eof()
            return True
        return False

    @property
    def pending_input(self) -> bool:
        return bool(self.inbox) or (self.inbox_eof and not self.client_eof)

    def half_close(self) -> None:
        """Client shuts down its sending side after queued data."""
        self.inbox_eof = True

    def reset(self) -> None:
        """Connection reset by peer, now."""
        if self.client_reset:
            return
        self.client_reset = True
        self.inbox.clear()
        self.world.log('reset', self.cid)
        exc = ConnectionResetError('Connection lost')
        if self.reader.exception() is None:
            self.reader.set_exception(exc)
        self.release(exc)

    def set_hold(self, hold: bool) -> None:
        self.hold = hold
        if not hold:
            self.release()

    def release(self, exc: BaseException | None = None) -> None:
        waiters, self._drain_waiters = self._drain_waiters, []
        for fut in waiters:
            if not fut.done():
                if exc is None:
                    fut.set_result(None)
                else:
                    fut.set_exception(ConnectionResetError('Connection lost'))
        if waiters:
            self.world.log('drain-released', self.cid)

    @property
    def held(self) -> bool:
        return any(not f.done() for f in self._drain_waiters)

    def scrub(self) -> None:
        """Once the connection task is over, drop traceback references the
        harness would otherwise keep alive (reader exception, task exception):
        they pin the server's per-connection objects, which production frees
        when the transport goes away."""
        exc = self.reader._exception
        if exc is not None:
            exc.__traceback__ = None
        task = self.task
        if task is not None and task.done() and not task.cancelled():
            exc = task.exception()
            while exc is not None:
                exc.__traceback__ = None
                exc = exc.__context__ or exc.__cause__

    @property
    def done(self) -> bool:
        return self.task is not None and self.task.done()
