"""Seeded search over cases, shrinking, replay, evidence.

Exit codes: 0 held on everything explored (KNOWN-FINDING lines allowed);
1 with ``VIOLATION property=<id> replay=<path>``; 2 harness error / timeout /
determinism failure (never a VIOLATION line).
"""

from __future__ import annotations

import argparse
import faulthandler
import hashlib
import importlib
import json
import multiprocessing
import os
import random
import subprocess
import sys
import time
import traceback
from concurrent.futures import ProcessPoolExecutor, as_completed

ROOT = os.path.dirname(os.path.dirname(os.path.abspath(__file__)))
FINDINGS_FILE = os.path.join(ROOT, 'known_findings.json')
PY = sys.executable
_clock = time.perf_counter

__all__ = ['Profile', 'main']


class Profile:
    """One property's generator + oracle wiring."""

    id = 'C00'
    level = 'exploration'
    quick_budget_s = 40.0
    thorough_budget_s = 420.0
    batch = 20                  # cases per work item
    rule = ''
    assumptions: list[str] = []
    components = {}

    def gen(self, rng: random.Random, tier: str) -> dict:
        raise NotImplementedError

    def run(self, case: dict, trace: bool = False) -> dict:
        """-> {'violations': [...], 'digest': str, 'stats': {...},
        'nontrivial': bool, 'shape': str, ...}"""
        raise NotImplementedError

    def simplify(self, case: dict):
        """Yield simpler variants of *case* (profile-specific shrinking)."""
        return ()

    def enumerate(self, tier: str):
        """Optional exhaustive part: yield cases (before random search)."""
        return ()


# ---- known findings ------------------------------------------------------------

def load_findings() -> list[dict]:
    try:
        with open(FINDINGS_FILE) as fp:
            data = json.load(fp)
    except FileNotFoundError:
        return []
    return [f for f in data.get('findings', []) if f.get('status') == 'open']


def match_finding(v: dict, findings: list[dict]) -> dict | None:
    for f in findings:
        if f['property'] != v['property']:
            continue
        m = f.get('match', {})
        ok = True
        for k, want in m.items():
            got = v.get(k) if k in ('clause',) else (v.get('sig') or {}).get(k)
            if isinstance(want, list):
                if got not in want:
                    ok = False
                    break
            elif got != want:
                ok = False
                break
        if ok:
            return f
    return None


def signature(v: dict) -> str:
    sig = v.get('sig') or {}
    return '%s|%s|%s' % (v['property'], v['clause'], ','.join(
        '%s=%s' % kv for kv in sorted(sig.items())))


def first_unknown(violations: list[dict], findings: list[dict], prop: str):
    """The first violation not explained by a listed finding.  Violations
    that occur after a known finding fired in the same run are not judged
    (the state is already off the rails because of the listed defect)."""
    known = []
    for v in violations:
        f = match_finding(v, findings)
        if f is not None:
            known.append((f, v))
            if f.get('taints', True):
                return None, known
            continue
        return v, known
    return None, known


# ---- worker ----------------------------------------------------------------------

_PROFILE = None


def _load_profile(pid: str) -> Profile:
    global _PROFILE
    if _PROFILE is None or _PROFILE.id != pid:
        mod = importlib.import_module('profiles.' + pid.lower())
        _PROFILE = mod.PROFILE
    return _PROFILE


def case_shape(case: dict) -> str:
    """Hash of the case with seeds erased (distinctness measure)."""
    def strip(o):
        if isinstance(o, dict):
            return {k: strip(v) for k, v in sorted(o.items())
                    if not k.endswith('seed')}
        if isinstance(o, list):
            return [strip(x) for x in o]
        return o
    return hashlib.sha1(json.dumps(strip(case), sort_keys=True)
                        .encode()).hexdigest()[:16]


def _work(pid: str, tier: str, seeds: list[int], findings: list[dict],
          explicit_cases: list | None = None, check_det: int = 0,
          collect: bool = False) -> dict:
    faulthandler.enable()
    faulthandler.dump_traceback_later(900, exit=True)
    prof = _load_profile(pid)
    out = {'cases': 0, 'nontrivial': set(), 'shapes': set(), 'stats': {},
           'probes': {}, 'fired': {}, 'known': {}, 'violation': None,
           'samples': [], 'sim_seconds': 0.0, 'moves': 0, 'inter': set(),
           'harness_error': None, 'det_checked': 0}

    def add(dst, src):
        for k, v in src.items():
            dst[k] = dst.get(k, 0) + v
    items = [(None, c) for c in (explicit_cases or [])] + \
        [(sd, None) for sd in seeds]
    for seed, case in items:
        try:
            if case is None:
                case = prof.gen(random.Random(seed), tier)
                case.setdefault('seed', seed & 0x7fffffff)
            res = prof.run(case)
            if check_det and out['det_checked'] < check_det:
                out['det_checked'] += 1
                res2 = prof.run(case)
                if res2['digest'] != res['digest']:
                    out['harness_error'] = (
                        'nondeterminism: digests differ for one case',
                        case)
                    return _ser(out)
        except Exception:
            out['harness_error'] = (traceback.format_exc(), case)
            return _ser(out)
        out['cases'] += 1
        shape = case_shape(case)
        out['shapes'].add(shape)
        if res.get('nontrivial'):
            out['nontrivial'].add(shape)
        for key in res.get('inter', ()):
            out['inter'].add(key)
        add(out['stats'], res.get('stats', {}))
        add(out['probes'], res.get('probes', {}))
        add(out['fired'], res.get('fired', {}))
        out['sim_seconds'] += res.get('sim_seconds', 0.0)
        out['moves'] += res.get('moves', 0)
        if len(out['samples']) < 2 and res.get('nontrivial'):
            out['samples'].append(case)
        v, known = first_unknown(res['violations'], findings, pid)
        for f, kv in known:
            ent = out['known'].setdefault(f['id'], {'n': 0, 'what': f['what'],
                                                    'property': f['property']})
            ent['n'] += 1
        if v is not None:
            if collect:
                out.setdefault('collected', {}).setdefault(
                    signature(v), {'violation': v, 'case': case, 'n': 0})
                out['collected'][signature(v)]['n'] += 1
                continue
            out['violation'] = {'violation': v, 'case': case,
                                'digest': res['digest']}
            break
    return _ser(out)


def _ser(out: dict) -> dict:
    out['nontrivial'] = sorted(out['nontrivial'])
    out['shapes'] = sorted(out['shapes'])
    out['inter'] = sorted(out['inter'])
    return out


# ---- shrinking -------------------------------------------------------------------

def _same(prof, case, want_sig, findings):
    try:
        res = prof.run(case)
    except Exception:
        return None
    v, _ = first_unknown(res['violations'], findings, prof.id)
    if v is not None and signature(v) == want_sig:
        return res, v
    return None


def shrink(prof: Profile, case: dict, want_sig: str, findings,
           max_runs: int = 400, deadline_s: float = 120.0):
    t0 = _clock()
    runs = 0
    best = case

    def try_(cand):
        nonlocal runs, best
        if runs >= max_runs or _clock() - t0 > deadline_s:
            return False
        runs += 1
        if _same(prof, cand, want_sig, findings):
            best = cand
            return True
        return False

    def clone(c):
        return json.loads(json.dumps(c))
    changed = True
    while changed and runs < max_runs and _clock() - t0 < deadline_s:
        changed = False
        # 1. ddmin over steps
        n = 2
        steps = best.get('steps', [])
        while len(steps) >= 2 and n <= len(steps):
            chunk = max(1, len(steps) // n)
            removed = False
            for i in range(0, len(steps), chunk):
                cand = clone(best)
                cand['steps'] = steps[:i] + steps[i + chunk:]
                if cand['steps'] and try_(cand):
                    steps = best['steps']
                    n = max(n - 1, 2)
                    removed = True
                    changed = True
                    break
            if not removed:
                if chunk == 1:
                    break
                n = min(n * 2, len(steps))
        # 2. drop single actions inside steps
        for si in range(len(best.get('steps', [])) - 1, -1, -1):
            acts = best['steps'][si].get('actions', [])
            for ai in range(len(acts) - 1, -1, -1):
                if len(best['steps'][si].get('actions', [])) <= ai:
                    continue
                cand = clone(best)
                del cand['steps'][si]['actions'][ai]
                if try_(cand):
                    changed = True
        # 3. per-step simplifiers: scheduling, faults, chunking
        for si in range(len(best.get('steps', []))):
            st = best['steps'][si]
            if st.get('sched_seed') is not None:
                cand = clone(best)
                cand['steps'][si]['sched_seed'] = None
                if try_(cand):
                    changed = True
            for fi in range(len(st.get('faults', [])) - 1, -1, -1):
                cand = clone(best)
                del cand['steps'][si]['faults'][fi]
                if try_(cand):
                    changed = True
            for ai, act in enumerate(st.get('actions', [])):
                for key in ('chunk_seed', 'eager'):
                    if act.get(key) is not None and \
                            ai < len(best['steps'][si]['actions']):
                        cand = clone(best)
                        cand['steps'][si]['actions'][ai].pop(key, None)
                        if try_(cand):
                            changed = True
        # 4. buggify kinds one at a time
        for kind in list(best.get('config', {}).get('buggify', [])):
            cand = clone(best)
            cand['config']['buggify'].remove(kind)
            if try_(cand):
                changed = True
        # 5. profile-specific
        for cand in prof.simplify(best):
            if try_(cand):
                changed = True
    return best, runs


# ---- replay ----------------------------------------------------------------------

def write_replay(prof: Profile, case: dict, v: dict, digest: str,
                 seed: int, trace: list | None,
                 original: dict | None = None) -> str:
    os.makedirs(os.path.join(ROOT, 'replays'), exist_ok=True)
    sig = hashlib.sha1(signature(v).encode()).hexdigest()[:10]
    path = os.path.join(ROOT, 'replays', '%s-%s-%d.json' % (prof.id, sig,
                                                           seed))
    doc = {'property': prof.id, 'signature': signature(v),
           'violation': _jsonable(v), 'digest': digest, 'case': case,
           'seed': seed, 'trace': trace}
    if original is not None and original is not case:
        # the case as generated, before shrinking (replay uses 'case')
        doc['original_case'] = original
    with open(path, 'w') as fp:
        json.dump(doc, fp, indent=1, default=_default)
    return path


def _default(o):
    if isinstance(o, (bytes, bytearray)):
        return bytes(o).decode('latin-1')
    if isinstance(o, (set, frozenset)):
        return sorted(_default(x) if isinstance(x, (bytes, bytearray)) else x
                      for x in o)
    return repr(o)


def _jsonable(o):
    return json.loads(json.dumps(o, default=_default))


def readable_trace(trace: list, limit: int = 400) -> list[str]:
    out = []
    for rec in trace[-limit:]:
        tick, now, kind = rec[0], rec[1], rec[2]
        args = rec[3:]
        if kind == 'it':
            out.append('iterate')
        elif kind == 'd':
            out.append('deliver c%d %r' % (args[0], bytes(args[1])[:60]))
        elif kind == 'w':
            out.append('write c%d %r' % (args[0], bytes(args[1])[:60]))
        else:
            out.append('%s %s' % (kind, ' '.join(repr(a)[:60] for a in args)))
    return out


def replay(path: str) -> int:
    with open(path) as fp:
        doc = json.load(fp)
    prof = _load_profile(doc['property'])
    findings = load_findings()
    res = prof.run(doc['case'])
    v, _ = first_unknown(res['violations'], findings, prof.id)
    if v is None:
        print('REPLAY: no violation reproduced (property held on this tree)')
        return 0
    same_sig = signature(v) == doc['signature']
    same_digest = res['digest'] == doc['digest']
    print('REPLAY: %s %s' % (signature(v), v['detail']))
    print('REPLAY: signature %s, digest %s' % (
        'matches' if same_sig else 'DIFFERS', 'matches' if same_digest
        else 'differs'))
    print('VIOLATION property=%s replay=%s' % (prof.id, path))
    return 1


# ---- main ------------------------------------------------------------------------

def _reexec_if_needed() -> None:
    if os.environ.get('PYTHONHASHSEED') != '0':
        env = dict(os.environ)
        env['PYTHONHASHSEED'] = '0'
        env['PYMAP_VERIF'] = '1'
        os.execve(PY, [PY] + sys.argv, env)


def main(argv=None) -> int:
    ap = argparse.ArgumentParser(prog='check')
    ap.add_argument('property')
    ap.add_argument('--tier', default=os.environ.get('VERIF_TIER', 'quick'),
                    choices=('quick', 'thorough'))
    ap.add_argument('--seed', type=int,
                    default=int(os.environ.get('VERIF_SEED', '1')))
    ap.add_argument('--replay')
    ap.add_argument('--budget', type=float, help='wall seconds of search')
    ap.add_argument('--workers', type=int,
                    default=int(os.environ.get('VERIF_WORKERS', '0')) or
                    min(16, os.cpu_count() or 1))
    ap.add_argument('--no-evidence', action='store_true')
    ap.add_argument('--max-cases', type=int, default=0)
    ap.add_argument('--collect', action='store_true',
                    help='development aid: do not stop at the first '
                    'violation, list every distinct signature')
    args = ap.parse_args(argv)
    _reexec_if_needed()
    sys.path.insert(0, ROOT)
    pid = args.property.upper()
    if args.replay:
        return replay(args.replay)
    try:
        return _search(pid, args)
    except SystemExit:
        raise
    except Exception:
        traceback.print_exc()
        print('HARNESS-ERROR property=%s' % pid)
        return 2


def _search(pid: str, args) -> int:
    prof = _load_profile(pid)
    findings = load_findings()
    tier = args.tier
    budget = args.budget or (prof.quick_budget_s if tier == 'quick'
                             else prof.thorough_budget_s)
    t0 = _clock()
    master = random.Random('%s/%s/%d' % (pid, tier, args.seed))
    ctx = multiprocessing.get_context('fork')
    agg = {'cases': 0, 'nontrivial': set(), 'shapes': set(), 'stats': {},
           'probes': {}, 'fired': {}, 'known': {}, 'samples': [],
           'sim_seconds': 0.0, 'moves': 0, 'inter': set(), 'det_checked': 0}
    violation = None
    harness_error = None
    exhaustive = None
    collected: dict = {}
    enum_cases = list(prof.enumerate(tier))
    enum_total = len(enum_cases)
    workers = max(1, args.workers)

    def merge(res):
        nonlocal violation, harness_error
        agg['cases'] += res['cases']
        agg['nontrivial'].update(res['nontrivial'])
        agg['shapes'].update(res['shapes'])
        agg['inter'].update(res['inter'])
        agg['det_checked'] += res.get('det_checked', 0)
        for key in ('stats', 'probes', 'fired'):
            for k, v in res[key].items():
                agg[key][k] = agg[key].get(k, 0) + v
        for fid, ent in res['known'].items():
            cur = agg['known'].setdefault(fid, {'n': 0, 'what': ent['what'],
                                               'property': ent['property']})
            cur['n'] += ent['n']
        agg['sim_seconds'] += res['sim_seconds']
        agg['moves'] += res['moves']
        if len(agg['samples']) < 3:
            agg['samples'].extend(res['samples'][:3 - len(agg['samples'])])
        if res.get('harness_error') and harness_error is None:
            harness_error = res['harness_error']
        if res.get('violation') and violation is None:
            violation = res['violation']
        for sig, ent in (res.get('collected') or {}).items():
            cur = collected.setdefault(sig, ent)
            if cur is not ent:
                cur['n'] += ent['n']

    with ProcessPoolExecutor(max_workers=workers, mp_context=ctx) as pool:
        futures = set()
        enum_pos = 0
        enum_done = 0

        def submit():
            nonlocal enum_pos
            if enum_pos < enum_total:
                chunk = enum_cases[enum_pos:enum_pos + prof.batch]
                enum_pos += len(chunk)
                fut = pool.submit(_work, pid, tier, [], findings, chunk, 0,
                                  args.collect)
                fut.is_enum = len(chunk)
            else:
                seeds = [master.getrandbits(48) for _ in range(prof.batch)]
                fut = pool.submit(_work, pid, tier, seeds, findings, None,
                                  1 if tier == 'quick' else 0, args.collect)
                fut.is_enum = 0
            futures.add(fut)

        for _ in range(workers * 2):
            submit()
        while futures:
            done = next(as_completed(list(futures), timeout=1200))
            futures.discard(done)
            res = done.result()
            merge(res)
            enum_done += done.is_enum
            stop = violation is not None or harness_error is not None
            over = _clock() - t0 > budget
            capped = args.max_cases and agg['cases'] >= args.max_cases
            if stop:
                for f in futures:
                    f.cancel()
                break
            if enum_pos < enum_total or (not over and not capped):
                submit()
        if enum_total:
            exhaustive = enum_done >= enum_total
        pool.shutdown(wait=True, cancel_futures=True)

    wall = _clock() - t0
    if harness_error is not None:
        msg, case = harness_error
        print('HARNESS-ERROR property=%s\n%s' % (pid, msg))
        os.makedirs(os.path.join(ROOT, 'replays'), exist_ok=True)
        p = os.path.join(ROOT, 'replays', '%s-harness-error.json' % pid)
        with open(p, 'w') as fp:
            json.dump({'case': case, 'error': msg}, fp, indent=1,
                      default=_default)
        print('case written to', p)
        return 2

    rc = 0
    replay_path = None
    if args.collect:
        os.makedirs(os.path.join(ROOT, 'replays'), exist_ok=True)
        for i, (sig, ent) in enumerate(sorted(collected.items())):
            path = os.path.join(ROOT, 'replays', '%s-collect-%d.json'
                                % (pid, i))
            with open(path, 'w') as fp:
                json.dump({'property': pid, 'signature': sig,
                           'violation': _jsonable(ent['violation']),
                           'case': ent['case'], 'digest': '', 'trace': []},
                          fp, default=_default)
            print('COLLECTED x%d %s\n    %s\n    %s' % (
                ent['n'], sig, ent['violation']['detail'][:200], path))
        print('%d cases, %d distinct signatures' % (agg['cases'],
                                                    len(collected)))
        return 1 if collected else 0
    if violation is not None:
        v = violation['violation']
        want = signature(v)
        small, runs = shrink(prof, violation['case'], want, findings)
        res = prof.run(small, trace=True)
        v2, _ = first_unknown(res['violations'], findings, pid)
        if v2 is None or signature(v2) != want:
            small = violation['case']
            res = prof.run(small, trace=True)
            v2, _ = first_unknown(res['violations'], findings, pid)
        if v2 is None:
            print('HARNESS-ERROR property=%s: violation did not reproduce '
                  'in-process (%s)' % (pid, want))
            return 2
        trace = readable_trace(res.get('trace') or [])
        replay_path = write_replay(prof, small, v2, res['digest'],
                                   args.seed, trace, violation['case'])
        # must reproduce in a fresh interpreter
        env = dict(os.environ)
        proc = subprocess.run(
            [PY, os.path.join(ROOT, 'check'), pid, '--replay', replay_path],
            capture_output=True, text=True, timeout=600, env=env)
        if 'signature matches' not in proc.stdout:
            print(proc.stdout[-2000:])
            print(proc.stderr[-2000:])
            print('HARNESS-ERROR property=%s: replay did not reproduce in a '
                  'fresh interpreter' % pid)
            return 2
        print('violation: %s' % want)
        print('detail: %s' % v2['detail'])
        print('shrunk with %d candidate runs to %d steps' % (
            runs, len(small.get('steps', []))))
        print('VIOLATION property=%s replay=%s' % (pid, replay_path))
        rc = 1

    for fid, ent in sorted(agg['known'].items()):
        print('KNOWN-FINDING: property=%s %s [%s, hit %d times]' % (
            ent['property'], ent['what'], fid, ent['n']))

    if not args.no_evidence:
        write_evidence(prof, tier, args.seed, agg, wall, rc, exhaustive,
                       workers, enum_total)
    rate = agg['cases'] / wall * 3600 if wall > 0 else 0
    print('%s %s: %d cases (%d distinct non-trivial) in %.1fs, %.0f cases/h, '
          '%.0f simulated s, violations=%d' % (
              pid, tier, agg['cases'], len(agg['nontrivial']), wall, rate,
              agg['sim_seconds'], 1 if rc else 0))
    return rc


def write_evidence(prof, tier, seed, agg, wall, rc, exhaustive, workers,
                   enum_total) -> None:
    os.makedirs(os.path.join(ROOT, 'evidence'), exist_ok=True)
    cov = {
        'evaluations': agg['cases'],
        'distinct_nontrivial': len(agg['nontrivial']),
        'distinct_cases': len(agg['shapes']),
        'rule': prof.rule,
        'samples': _jsonable(agg['samples'][:3]),
        'cases_per_hour': round(agg['cases'] / wall * 3600) if wall else 0,
        'simulated_seconds': round(agg['sim_seconds'], 3),
        'scheduler_moves': agg['moves'],
        'distinct_interleavings': len(agg['inter']),
        'workload': agg['stats'],
        'reach_probes': agg['probes'],
        'faults_and_buggify_fired': agg['fired'],
        'determinism_rechecks': agg['det_checked'],
        'known_findings_hit': {k: v['n'] for k, v in agg['known'].items()},
        'components': prof.components,
        'workers': workers,
    }
    if enum_total:
        cov['enumerated_cases'] = enum_total
        cov['exhaustive'] = bool(exhaustive)
    doc = {'property_id': prof.id, 'tier': tier, 'seed': seed,
           'level': prof.level, 'coverage': cov,
           'assumptions': list(prof.assumptions), 'wall_s': round(wall, 2),
           'violations': 1 if rc else 0}
    path = os.path.join(ROOT, 'evidence', '%s.json' % prof.id)
    with open(path, 'w') as fp:
        json.dump(doc, fp, indent=1, default=_default)
