"""Shadow client view of the selected mailbox (property C01's "client that
applies the untagged responses in the order received").

slots[i] is the message with sequence number i+1: its UID when the client has
been told it, and the flags last reported.  Rules:

* ``n EXPUNGE`` deletes slot n (must satisfy 1 <= n <= count);
* ``n EXISTS`` appends unknown slots (n must not be below count);
* ``n FETCH`` with UID teaches/validates the UID, with FLAGS replaces flags;
* no EXPUNGE while a non-UID FETCH/STORE/SEARCH is being answered.
"""

from __future__ import annotations

__all__ = ['Shadow', 'parse_seqset', 'canon_flag']

_SYSTEM = {b'\\seen': b'\\Seen', b'\\answered': b'\\Answered',
           b'\\flagged': b'\\Flagged', b'\\deleted': b'\\Deleted',
           b'\\draft': b'\\Draft', b'\\recent': b'\\Recent'}


def canon_flag(flag: bytes) -> bytes:
    if flag.startswith(b'\\'):
        return _SYSTEM.get(flag.lower(), b'\\' + flag[1:].capitalize())
    return flag


def parse_seqset(text: bytes, maxval: int) -> list[int] | None:
    """Flatten a sequence set against *maxval* ('*'), RFC 3501 semantics:
    ranges are unordered pairs, '*' is the largest number in use."""
    out: set[int] = set()
    try:
        for part in text.split(b','):
            if b':' in part:
                a, _, c = part.partition(b':')
                lo = maxval if a == b'*' else int(a)
                hi = maxval if c == b'*' else int(c)
                if lo > hi:
                    lo, hi = hi, lo
                out.update(range(lo, min(hi, maxval) + 1))
            else:
                v = maxval if part == b'*' else int(part)
                out.add(v)
    except ValueError:
        return None
    return sorted(out)


class Slot:
    __slots__ = ('uid', 'flags')

    def __init__(self, uid=None, flags=None) -> None:
        self.uid = uid
        self.flags = flags

    def __repr__(self) -> str:
        return 'Slot(%r,%r)' % (self.uid, self.flags)


class Shadow:

    def __init__(self, client) -> None:
        self.client = client
        self.selected: dict | None = None
        self.slots: list[Slot] = []
        self.recent_count: int | None = None
        self._saved = None
        self.selecting = None
        self.incarnation = 0
        self.glass_checks = 0
        self.glass_missing = 0
        self.expunges_seen = 0
        self.exists_seen = 0
        self.fetch_seen = 0
        # C17 bookkeeping
        self.recent_seen: list = []      # (slot, selection dict)
        # every FLAGS report: (selection dict, slot, \Recent in it?, tick)
        self.flag_obs: list = []
        self.sel_log: list[dict] = []    # selection intervals

    # -- helpers ------------------------------------------------------------

    def _bad(self, clause: str, detail: str, **kw) -> None:
        self.client.violate('C01', clause, detail, **kw)

    @property
    def count(self) -> int:
        return len(self.slots)

    def uids(self) -> list:
        return [sl.uid for sl in self.slots]

    def known_uids(self) -> set[int]:
        return {sl.uid for sl in self.slots if sl.uid is not None}

    def resolve(self, set_text: bytes, uid: bool) -> list[Slot] | None:
        """Slots a command's sequence/UID set addresses in the shadow view.
        None when the shadow cannot tell (unknown UIDs)."""
        if uid:
            if any(sl.uid is None for sl in self.slots):
                return None
            maxuid = max((sl.uid for sl in self.slots), default=0)
            wanted = parse_seqset(set_text, maxuid)
            if wanted is None:
                return None
            w = set(wanted)
            return [sl for sl in self.slots if sl.uid in w]
        wanted = parse_seqset(set_text, self.count)
        if wanted is None:
            return None
        return [self.slots[i - 1] for i in wanted if 1 <= i <= self.count]

    # -- events -------------------------------------------------------------

    def on_invoke(self, cmd) -> None:
        if cmd.kind in ('select', 'examine'):
            self._saved = (self.selected, self.slots, self.recent_count)
            self.selecting = cmd
            self.selected = None
            self.slots = []
            self.recent_count = None
            cmd.extra['sel'] = {'flags': None, 'permflags': None}
        elif cmd.kind == 'store' and self.selected is not None:
            cmd.extra['addressed'] = self.resolve(
                cmd.action['set'].encode('latin-1'),
                bool(cmd.action.get('uid')))
            if any(f.lower() == '\\recent' for f in cmd.action['flags']):
                cmd.extra['recent_before'] = [
                    (sl, None if sl.flags is None else b'\\Recent' in sl.flags)
                    for sl in (cmd.extra['addressed'] or ())]

    def on_idle_start(self, cmd) -> None:
        cmd.extra['idle_baseline'] = [(sl.uid, sl.flags) for sl in self.slots]

    def on_untagged(self, resp, cur) -> None:
        name = resp.name
        if resp.kind == 'cond':
            if self.selecting is not None and cur is self.selecting \
                    and resp.code:
                self.selecting.extra['sel'][resp.code[0]] = resp.code[1]
            return
        if name not in (b'EXISTS', b'RECENT', b'EXPUNGE', b'FETCH', b'SEARCH',
                        b'FLAGS'):
            return
        selecting = self.selecting is not None and cur is self.selecting
        if not selecting and self.selected is None:
            if name in (b'EXISTS', b'EXPUNGE', b'FETCH', b'RECENT'):
                self._bad('data-without-selection',
                          '%s received with no mailbox selected' %
                          name.decode())
            return
        if name == b'FLAGS':
            if selecting:
                self.selecting.extra['sel']['flags'] = resp.data
            return
        if name == b'EXISTS':
            self.exists_seen += 1
            n = resp.num
            if n < self.count:
                self._bad('exists-shrinks', 'EXISTS %d while count is %d'
                          % (n, self.count))
                del self.slots[n:]
            else:
                self.slots.extend(Slot() for _ in range(n - self.count))
            return
        if name == b'RECENT':
            self.recent_count = resp.num
            return
        if name == b'EXPUNGE':
            self.expunges_seen += 1
            n = resp.num
            if cur is not None and cur.nonuid_hide:
                self._bad('expunge-during-nonuid',
                          'EXPUNGE %d sent while answering non-UID %s'
                          % (n, cur.kind.upper()))
            if not 1 <= n <= self.count:
                self._bad('expunge-range', 'EXPUNGE %d while count is %d'
                          % (n, self.count))
                return
            del self.slots[n - 1]
            return
        if name == b'FETCH':
            self.fetch_seen += 1
            n = resp.num
            if not 1 <= n <= self.count:
                self._bad('fetch-range', 'FETCH %d while count is %d'
                          % (n, self.count))
                return
            slot = self.slots[n - 1]
            data = resp.data
            uid = data.get(b'UID')
            if uid is not None:
                if slot.uid is not None and slot.uid != uid:
                    self._bad('fetch-uid-mismatch',
                              'FETCH %d says UID %d but slot holds UID %d'
                              % (n, uid, slot.uid))
                else:
                    for i, other in enumerate(self.slots):
                        if other is not slot and other.uid == uid:
                            self._bad('fetch-uid-duplicate',
                                      'UID %d reported for seq %d and %d'
                                      % (uid, i + 1, n))
                    lo = max((sl.uid for sl in self.slots[:n - 1]
                              if sl.uid is not None), default=0)
                    hi = min((sl.uid for sl in self.slots[n:]
                              if sl.uid is not None), default=None)
                    if uid <= lo or (hi is not None and uid >= hi):
                        self._bad('fetch-uid-order',
                                  'UID %d at seq %d breaks ascending order'
                                  % (uid, n))
                    slot.uid = uid
            flags = data.get(b'FLAGS')
            if flags is not None:
                slot.flags = frozenset(canon_flag(f) for f in flags)
                if b'\\Recent' in slot.flags and self.selected is not None:
                    self.recent_seen.append((slot, self.selected))
                if self.selected is not None:
                    self.flag_obs.append((self.selected, slot,
                                          b'\\Recent' in slot.flags,
                                          self.client.world.seq))
                if cur is not None:
                    cur.extra.setdefault('flag_fetched', []).append(slot)
            return
        if name == b'SEARCH':
            if cur is not None and cur.kind == 'search' \
                    and not cur.action.get('uid'):
                for n in resp.data:
                    if not 1 <= n <= self.count:
                        self._bad('search-range', 'SEARCH result %d while '
                                  'count is %d' % (n, self.count))
            return

    def on_complete(self, cmd) -> None:
        kind = cmd.kind
        cond = cmd.cond
        if kind in ('select', 'examine') and cmd is self.selecting:
            self.selecting = None
            if cond != 'BAD':
                saved = self._saved[0] if self._saved else None
                if saved is not None and saved.get('end') is None:
                    saved['end'] = self.client.world.seq
            if cond == 'OK':
                self.incarnation += 1
                code = cmd.result.code
                ro = bool(code and code[0] == b'READ-ONLY')
                sel = cmd.extra['sel']
                # whatever was selected before ended with this command
                self._end_selection()
                self.selected = {
                    'mailbox': cmd.action.get('mailbox'),
                    'readonly': ro, 'examine': kind == 'examine',
                    'uidvalidity': sel.get(b'UIDVALIDITY'),
                    'uidnext': sel.get(b'UIDNEXT'),
                    'permflags': sel.get(b'PERMANENTFLAGS'),
                    'mailboxid': sel.get(b'MAILBOXID'),
                    'unseen': sel.get(b'UNSEEN'),
                    'recent': self.recent_count,
                    'exists': self.count,
                    'incarnation': self.incarnation,
                    'sid': self.client.sid,
                    'seq': self.client.world.seq,
                    'start_inv': cmd.seq_invoke, 'start_ret': cmd.seq_return,
                    'end': None}
                self.sel_log.append(self.selected)
            elif cond == 'BAD' and self._saved is not None:
                self.selected, self.slots, self.recent_count = self._saved
            else:
                # a failed SELECT/EXAMINE leaves nothing selected
                self._end_selection()
                self.selected = None
                self.slots = []
            self._saved = None
        elif kind in ('close', 'unselect') and cond == 'OK':
            self._end_selection()
            self.selected = None
            self.slots = []
        elif kind == 'logout':
            self._end_selection()
        elif kind == 'store' and cond == 'OK' and cmd.action.get('silent') \
                and self.selected is not None:
            self._apply_silent(cmd)
        if kind == 'store' and 'recent_before' in cmd.extra:
            live = {id(x) for x in self.slots}
            for sl, before in cmd.extra['recent_before']:
                if before is None or id(sl) not in live or sl.flags is None:
                    continue
                now = b'\\Recent' in sl.flags
                if now and not before:
                    # \Recent may legitimately show up late for a message
                    # that arrived during this selection; it can never appear
                    # on one that was already there at SELECT time
                    nxt = (self.selected or {}).get('uidnext')
                    if sl.uid is None or nxt is None or sl.uid >= nxt:
                        continue
                if now != before:
                    self.client.violate(
                        'C17', 'store-changed-recent', 'STORE %sFLAGS %s '
                        'changed \\Recent on UID %s from %s to %s' % (
                            cmd.action.get('op', ''), cmd.action['flags'],
                            sl.uid, before, not before))
                    break
        if self.client.glass and cmd.result is not None:
            self.glass_check(cmd)

    def _end_selection(self) -> None:
        for sel in self.sel_log:
            if sel['end'] is None:
                sel['end'] = self.client.world.seq

    def on_disconnect(self) -> None:
        self._end_selection()

    def _apply_silent(self, cmd) -> None:
        act = cmd.action
        slots = cmd.extra.get('addressed')
        if slots is None:
            return
        perm = self.selected.get('permflags') or []
        perm = {canon_flag(f) for f in perm}
        star = b'\\*' in perm
        flags = {canon_flag(f.encode('latin-1')) for f in act['flags']}
        flags = {f for f in flags if f in perm or
                 (star and not f.startswith(b'\\'))}
        op = act.get('op', '')
        answered = {id(x) for x in cmd.extra.get('flag_fetched', ())}
        live = {id(x) for x in self.slots}
        for sl in slots:
            if id(sl) not in live or id(sl) in answered:
                continue
            if sl.flags is None:
                continue
            keep_recent = {b'\\Recent'} & sl.flags
            cur = set(sl.flags) - {b'\\Recent'}
            if op == '+':
                cur |= flags
            elif op == '-':
                cur -= flags
            else:
                cur = set(flags)
            sl.flags = frozenset(cur | keep_recent)

    # -- glass box ------------------------------------------------------------

    def glass_check(self, cmd) -> None:
        """Compare with the server's own list (ConnectionState._selected.
        messages._sorted).  Degrades silently if the path is gone."""
        state = self.client.world.states.get(self.client.conn.cid) \
            if hasattr(self.client.world, 'states') else None
        if state is None:
            self.glass_missing += 1
            return
        try:
            sel = state._selected
            server = None if sel is None else list(sel.messages._sorted)
        except AttributeError:
            self.glass_missing += 1
            return
        self.glass_checks += 1
        try:
            if sel is not None and sel.messages._pending_remove:
                self.client.world.probe('expunge_deferred_by_hide_expunged')
        except AttributeError:
            pass
        if server is None:
            if self.selected is not None and cmd.kind not in ('logout',):
                self._bad('glass.selected', 'client believes %r selected, '
                          'server has none' % self.selected.get('mailbox'))
            return
        if self.selected is None:
            # server still has a selection the client was told is gone
            if cmd.kind in ('select', 'examine') and cmd.cond == 'NO':
                self._bad('glass.selected', 'failed SELECT left a mailbox '
                          'selected on the server')
            return
        if len(server) != self.count:
            self._bad('glass.count', 'after %s: client count %d, server %d'
                      % (cmd.kind, self.count, len(server)),
                      server=server, client=self.uids())
            return
        for i, (uid, sl) in enumerate(zip(server, self.slots)):
            if sl.uid is None:
                sl.uid = uid
            elif sl.uid != uid:
                self._bad('glass.mapping', 'after %s: seq %d is UID %d for '
                          'the client, %d for the server'
                          % (cmd.kind, i + 1, sl.uid, uid),
                          server=server, client=self.uids())
                return
