"""SimFS: interposer between the maildir backend (and the stdlib ``mailbox``
module under it) and a *real* scratch directory on tmpfs.

It substitutes the names ``os`` and ``open`` (and ``NamedTemporaryFile``) in
the modules that touch the store, so every file-system operation the backend
performs goes through :class:`SimFS`: it is logged with the connection it was
made for, ``listdir`` results are ordered deterministically (or permuted from
the seed), mtimes come from the virtual clock, the process id is fixed, and
hooks can inject an ``OSError`` or take a "crash image" (a copy of the tree)
before any mutating operation.

A crash image taken before operation k is exactly what a killed process
leaves behind: every completed system call persists, nothing else does (data
still in a Python file buffer has not reached the directory, and is not in
the copy either, because the copy is made from the real files).
"""

from __future__ import annotations

import builtins
import errno
import os as _os
import shutil
import stat as _stat
import tempfile as _tempfile

__all__ = ['SimFS', 'InjectedCrash']

MUTATING = ('open-w', 'close-w', 'rename', 'remove', 'mkdir', 'rmdir', 'link',
            'utime', 'os.open-w')

TARGET_MODULES = ['mailbox', 'pymap.backend.maildir', 'pymap.backend.maildir.io',
                  'pymap.backend.maildir.mailbox',
                  'pymap.backend.maildir.layout',
                  'pymap.backend.maildir.uidlist',
                  'pymap.backend.maildir.flags',
                  'pymap.backend.maildir.subscriptions',
                  'pymap.backend.maildir.users', 'pymap.concurrent']


class InjectedCrash(BaseException):
    """The simulated process is killed here."""


class _PathProxy:

    def __init__(self, fs: 'SimFS') -> None:
        self._fs = fs

    def __getattr__(self, name: str):
        return getattr(_os.path, name)

    def exists(self, path):
        self._fs.note('exists', path)
        return _os.path.exists(path)

    def isdir(self, path):
        self._fs.note('isdir', path)
        return _os.path.isdir(path)

    def isfile(self, path):
        self._fs.note('isfile', path)
        return _os.path.isfile(path)

    def getmtime(self, path):
        self._fs.note('stat', path)
        real = _os.path.getmtime(path)
        return self._fs.vmtime.get(_os.path.abspath(path), real)

    def getatime(self, path):
        self._fs.note('stat', path)
        return _os.path.getatime(path)


class _OsProxy:
    """Looks like the ``os`` module to the code under test."""

    def __init__(self, fs: 'SimFS') -> None:
        self._fs = fs
        self.path = _PathProxy(fs)

    def __getattr__(self, name: str):
        return getattr(_os, name)

    def getpid(self) -> int:
        return 4242

    # -- reads -------------------------------------------------------------

    def listdir(self, path='.'):
        self._fs.op('listdir', path)
        names = sorted(_os.listdir(path))
        return self._fs.permute_listing(names)

    def scandir(self, path='.'):
        self._fs.op('listdir', path)
        entries = sorted(_os.scandir(path), key=lambda e: e.name)
        return _ScandirResult(entries)

    def walk(self, top, topdown=True, onerror=None, followlinks=False):
        self._fs.op('walk', top)
        for root, dirs, files in _os.walk(top, topdown=topdown,
                                          onerror=onerror,
                                          followlinks=followlinks):
            dirs.sort()
            files.sort()
            self._fs.note('listdir', root)
            yield root, dirs, files

    def stat(self, path, *a, **kw):
        self._fs.op('stat', path)
        st = _os.stat(path, *a, **kw)
        return self._fs.fake_stat(path, st)

    def lstat(self, path, *a, **kw):
        self._fs.op('stat', path)
        return self._fs.fake_stat(path, _os.lstat(path, *a, **kw))

    # -- mutations -----------------------------------------------------------

    def rename(self, src, dst, *a, **kw):
        self._fs.op('rename', src, dst)
        self._fs.check_xdev(src, dst)
        _os.rename(src, dst, *a, **kw)
        self._fs.moved(src, dst)

    def replace(self, src, dst, *a, **kw):
        self._fs.op('rename', src, dst)
        self._fs.check_xdev(src, dst)
        _os.replace(src, dst, *a, **kw)
        self._fs.moved(src, dst)

    def remove(self, path, *a, **kw):
        self._fs.op('remove', path)
        _os.remove(path, *a, **kw)
        self._fs.touch_dir_of(path)

    def unlink(self, path, *a, **kw):
        self._fs.op('remove', path)
        _os.unlink(path, *a, **kw)
        self._fs.touch_dir_of(path)

    def mkdir(self, path, *a, **kw):
        self._fs.op('mkdir', path)
        _os.mkdir(path, *a, **kw)
        self._fs.touch(path)

    def makedirs(self, path, *a, **kw):
        self._fs.op('mkdir', path)
        _os.makedirs(path, *a, **kw)

    def rmdir(self, path, *a, **kw):
        self._fs.op('rmdir', path)
        _os.rmdir(path, *a, **kw)
        self._fs.touch_dir_of(path)

    def link(self, src, dst, *a, **kw):
        self._fs.op('link', src, dst)
        _os.link(src, dst, *a, **kw)
        self._fs.moved(src, dst, keep=True)

    def utime(self, path, times=None, **kw):
        self._fs.op('utime', path)
        _os.utime(path, times, **kw)
        if times is not None:
            self._fs.vmtime[_os.path.abspath(path)] = times[1]
        else:
            self._fs.touch(path)

    def open(self, path, flags, mode=0o777, **kw):
        writing = flags & (_os.O_WRONLY | _os.O_RDWR | _os.O_CREAT)
        self._fs.op('os.open-w' if writing else 'os.open-r', path)
        fd = _os.open(path, flags, mode, **kw)
        if writing:
            self._fs.touch(path)
        return fd

    def fsync(self, fd):
        self._fs.note('fsync')
        return None


class _ScandirResult(list):

    def __enter__(self):
        return self

    def __exit__(self, *exc):
        return False

    def close(self):
        pass


class _FileProxy:
    """A writable file: closing it is an operation (the flush makes the
    content visible in the directory)."""

    def __init__(self, fs: 'SimFS', fp, path: str) -> None:
        object.__setattr__(self, '_fs', fs)
        object.__setattr__(self, '_fp', fp)
        object.__setattr__(self, '_path', path)

    def __getattr__(self, name: str):
        return getattr(self._fp, name)

    def __setattr__(self, name, value):
        setattr(self._fp, name, value)

    def __iter__(self):
        return iter(self._fp)

    def __enter__(self):
        return self

    def __exit__(self, *exc):
        self.close()
        return False

    def close(self):
        if not self._fp.closed:
            self._fs.op('close-w', self._path)
            self._fp.close()
            self._fs.touch(self._path)


class SimFS:

    def __init__(self, world, root: str) -> None:
        self.world = world
        self.root = _os.path.abspath(root)
        self.os = _OsProxy(self)
        self.log: list[tuple] = []          # (n, op, paths, cid)
        self.n = 0                           # operation counter (all ops)
        self.mutations = 0                   # mutating operation counter
        self.vmtime: dict[str, float] = {}
        self.before_mutation = None          # hook(fs, op, paths)
        self.fail_at: dict[int, int] = {}    # mutation index -> errno
        self.xdev_dirs: list[str] = []       # renames out of these fail EXDEV
        self.temp_files: set[str] = set()
        self.escapes: list[tuple] = []
        self.temp_counter = 0
        self._saved: list = []
        self.installed = False
        self.permute = False

    # -- bookkeeping -------------------------------------------------------

    def _cid(self):
        try:
            from pymap.context import socket_info
            return socket_info.get()._transport.cid
        except Exception:
            return None

    def note(self, op: str, *paths) -> None:
        self.n += 1
        self.log.append((self.n, op, tuple(str(p) for p in paths),
                         self._cid()))

    def op(self, op: str, *paths) -> None:
        self.note(op, *paths)
        self.world.log('fs', op, *[_os.path.relpath(str(p), self.root)
                                   for p in paths])
        if op in MUTATING:
            for p in paths:
                ap = _os.path.abspath(str(p))
                if ap != self.root and not ap.startswith(self.root + _os.sep):
                    # never let the code under test modify anything outside
                    # the scratch tree for real
                    self.escapes.append((op, ap, self._cid()))
                    raise PermissionError(errno.EACCES, 'outside the '
                                          'simulated file system', ap)
            idx = self.mutations
            self.mutations += 1
            hook = self.before_mutation
            if hook is not None:
                hook(self, idx, op, paths)
            err = self.fail_at.pop(idx, None)
            if err is not None:
                self.world.fired['fault:oserror'] = \
                    self.world.fired.get('fault:oserror', 0) + 1
                raise OSError(err, _os.strerror(err), str(paths[0]))

    def touch(self, path) -> None:
        # every mutating operation takes one virtual microsecond, so that
        # mtimes order operations the way a real clock would
        self.world.clock.now += 1e-6
        ap = _os.path.abspath(str(path))
        now = self.world.clock.time()
        self.vmtime[ap] = now
        self.vmtime[_os.path.dirname(ap)] = now

    def touch_dir_of(self, path) -> None:
        self.world.clock.now += 1e-6
        ap = _os.path.abspath(str(path))
        self.vmtime[_os.path.dirname(ap)] = self.world.clock.time()

    def moved(self, src, dst, keep: bool = False) -> None:
        a, b = _os.path.abspath(str(src)), _os.path.abspath(str(dst))
        self.touch_dir_of(a)
        self.touch_dir_of(b)
        if a in self.vmtime:
            self.vmtime[b] = self.vmtime[a] if keep else self.vmtime.pop(a)
        # a renamed directory takes its children along
        prefix = a + _os.sep
        for p in [p for p in self.vmtime if p.startswith(prefix)]:
            self.vmtime[b + _os.sep + p[len(prefix):]] = self.vmtime.pop(p)

    def fake_stat(self, path, st):
        vm = self.vmtime.get(_os.path.abspath(str(path)))
        if vm is None and str(path).endswith('.lock') \
                and self.world.cfg.get('stale_locks'):
            # a lock file found at restart: its age counts from the restart
            vm = self.world.clock.wall_offset
        if vm is None:
            return st
        vals = list(st)
        vals[_stat.ST_MTIME] = int(vm)
        return _FakeStat(st, vm)

    def check_xdev(self, src, dst) -> None:
        a = _os.path.abspath(str(src))
        for d in self.xdev_dirs:
            if a.startswith(d + _os.sep) and not _os.path.abspath(
                    str(dst)).startswith(d + _os.sep):
                self.world.probe('exdev_injected')
                raise OSError(errno.EXDEV, 'Invalid cross-device link',
                              str(src))

    def permute_listing(self, names: list[str]) -> list[str]:
        if self.permute:
            return self.world.permute('listdir', names)
        return names

    # -- open ----------------------------------------------------------------

    def open(self, path, mode='r', *a, **kw):
        writing = any(c in mode for c in 'wax+')
        if not isinstance(path, (str, bytes, _os.PathLike)):
            return builtins.open(path, mode, *a, **kw)
        if writing:
            self.op('open-w', path)
            fp = builtins.open(path, mode, *a, **kw)
            self.touch(path)
            return _FileProxy(self, fp, str(path))
        self.op('open-r', path)
        return builtins.open(path, mode, *a, **kw)

    def named_temporary_file(self, mode='w+b', *a, **kw):
        # tempfile draws names from os.urandom: use a counter instead
        self.temp_counter += 1
        where = kw.get('dir') or _tempfile.tempdir or _tempfile.gettempdir()
        name = _os.path.join(where, 'simtmp-%06d' % self.temp_counter)
        self.op('open-w', name)
        fp = builtins.open(name, mode if 'x' in mode or 'w' in mode
                           else 'w+b')
        self.temp_files.add(_os.path.abspath(name))
        self.touch(name)
        return _TempProxy(self, fp, name)

    # -- install / uninstall ---------------------------------------------------

    def install(self) -> None:
        import importlib
        for name in TARGET_MODULES:
            try:
                mod = importlib.import_module(name)
            except Exception:
                continue
            for attr, repl in (('os', self.os), ('open', self.open)):
                had = attr in mod.__dict__
                self._saved.append((mod, attr, had, mod.__dict__.get(attr)))
                if attr == 'os' and not had:
                    continue
                setattr(mod, attr, repl)
            if 'NamedTemporaryFile' in mod.__dict__:
                self._saved.append((mod, 'NamedTemporaryFile', True,
                                    mod.__dict__['NamedTemporaryFile']))
                mod.NamedTemporaryFile = self.named_temporary_file
        self.installed = True

    def uninstall(self) -> None:
        for mod, attr, had, old in reversed(self._saved):
            if had:
                setattr(mod, attr, old)
            elif attr in mod.__dict__:
                delattr(mod, attr)
        self._saved = []
        self.installed = False

    # -- crash images ------------------------------------------------------------

    def snapshot(self, dest: str) -> None:
        shutil.copytree(self.root, dest, symlinks=True)


class _TempProxy(_FileProxy):

    def __init__(self, fs, fp, name) -> None:
        super().__init__(fs, fp, name)

    @property
    def name(self):
        return self._path

    def close(self):
        if not self._fp.closed:
            self._fs.op('close-w', self._path)
            self._fp.close()
            self._fs.touch(self._path)


class _FakeStat:
    """stat_result with a virtual st_mtime."""

    def __init__(self, st, mtime: float) -> None:
        self._st = st
        self.st_mtime = mtime
        self.st_mtime_ns = int(mtime * 1e9)

    def __getattr__(self, name):
        return getattr(self._st, name)

    def __getitem__(self, i):
        if i == _stat.ST_MTIME:
            return int(self.st_mtime)
        return self._st[i]
