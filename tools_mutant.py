"""Confirm a seeded change produced in a scratch worktree and try the checks on it.

  /venv/bin/python tools_mutant.py /tmp/wt-C01 C01 [C02 ...] [--keep name] [--tier quick|thorough]

Steps: (1) without the change the demonstration passes; (2) with the change it
fails; (3) with the change the repository's own suite still gives 300 passed;
(4) each named check is run against the changed tree (PYMAP_SRC) and must exit 1
with a VIOLATION line to count as catching it.  With --keep the patch, the
demonstration and meta.json are stored under seeded/<name>/.
"""
import json
import os
import shutil
import subprocess
import sys

ROOT = os.path.dirname(os.path.abspath(__file__))
PY = '/venv/bin/python'


def run(cmd, cwd, env=None, timeout=1800):
    e = dict(os.environ)
    e.update(env or {})
    return subprocess.run(cmd, cwd=cwd, env=e, capture_output=True, text=True,
                          timeout=timeout)


def demo(wt):
    path = os.path.join(wt, 'seeded_demo.py')
    src = open(path).read()
    env = {'PYTHONPATH': wt}
    if 'def test_' in src and '__main__' not in src:
        return run([PY, '-m', 'pytest', 'seeded_demo.py', '-q', '-p',
                    'no:cacheprovider', '--timeout=600'], wt, env)
    return run([PY, 'seeded_demo.py'], wt, env)


def main():
    args = sys.argv[1:]
    keep = None
    tier = 'quick'
    if '--keep' in args:
        i = args.index('--keep')
        keep = args[i + 1]
        del args[i:i + 2]
    if '--tier' in args:
        i = args.index('--tier')
        tier = args[i + 1]
        del args[i:i + 2]
    wt, props = args[0], args[1:]
    patch = os.path.join(wt, 'seeded_patch.diff')
    assert os.path.exists(patch), 'no seeded_patch.diff'
    run(['git', 'checkout', '--', 'pymap'], wt)
    r = demo(wt)
    clean_ok = r.returncode == 0
    print('demo on the unchanged tree: rc=%d (%s)' % (
        r.returncode, 'passes' if clean_ok else 'FAILS'))
    if not clean_ok:
        print(r.stdout[-1500:], r.stderr[-1500:])
    a = run(['git', 'apply', 'seeded_patch.diff'], wt)
    if a.returncode != 0:
        print('patch does not apply:', a.stderr)
        return 2
    r = demo(wt)
    changed_fails = r.returncode != 0
    print('demo with the change: rc=%d (%s)' % (
        r.returncode, 'fails' if changed_fails else 'STILL PASSES'))
    s = run([PY, '-m', 'pytest', '-q', '-p', 'no:cacheprovider',
             '--timeout=900', '--continue-on-collection-errors'], wt,
            {'PYTHONPATH': wt})
    tail = s.stdout.strip().splitlines()[-1] if s.stdout.strip() else ''
    suite_ok = '300 passed' in tail and 'failed' not in tail
    print('suite with the change:', tail)
    diff = open(patch).read()
    print('patch: %d lines, files: %s' % (
        len(diff.splitlines()),
        sorted({l[6:] for l in diff.splitlines() if l.startswith('+++ b/')})))
    results = {}
    # the checks run against /repo's *current* pymap plus the patch (the
    # worktree may be some commits behind /repo)
    import tempfile
    scratch = tempfile.mkdtemp(prefix='pymap-mut-', dir='/dev/shm')
    shutil.copytree('/repo/pymap', os.path.join(scratch, 'pymap'))
    a = run(['patch', '-p1', '-s', '-d', scratch, '-i', patch], wt)
    if a.returncode != 0:
        print('patch does not apply to /repo HEAD:', a.stdout, a.stderr)
        shutil.rmtree(scratch, ignore_errors=True)
        return 2
    import atexit
    atexit.register(shutil.rmtree, scratch, True)
    for pid in props:
        c = run([PY, os.path.join(ROOT, 'check'), pid, '--tier', tier,
                 '--no-evidence'], ROOT, {'PYMAP_SRC': scratch})
        hit = c.returncode == 1 and 'VIOLATION property=' in c.stdout
        lines = [l for l in c.stdout.splitlines()
                 if l.startswith(('violation:', 'detail:', 'VIOLATION',
                                  'HARNESS', pid + ' '))]
        results[pid] = hit
        print('check %s (%s): rc=%d %s' % (pid, tier, c.returncode,
                                           'CAUGHT' if hit else 'missed'))
        for l in lines[:4]:
            print('    ' + l[:300])
    if keep:
        d = os.path.join(ROOT, 'seeded', keep)
        os.makedirs(d, exist_ok=True)
        shutil.copy(patch, os.path.join(d, 'patch.diff'))
        shutil.copy(os.path.join(wt, 'seeded_demo.py'),
                    os.path.join(d, 'demo.py'))
        note = os.path.join(wt, 'seeded_note.md')
        if os.path.exists(note):
            shutil.copy(note, os.path.join(d, 'note.md'))
        meta_path = os.path.join(d, 'meta.json')
        meta = json.load(open(meta_path)) if os.path.exists(meta_path) else {}
        meta.update({
            'confirmed': {'demo_passes_unchanged': clean_ok,
                          'demo_fails_changed': changed_fails,
                          'suite_300_passed_with_change': suite_ok},
            'checks_run': {p: ('caught' if h else 'missed') + ' (%s)' % tier
                           for p, h in results.items()},
            'detected_by': sorted(set(meta.get('detected_by', []))
                                  | {p for p, h in results.items() if h}),
            'how_run': 'tools_mutant.py: demo on unchanged tree, git apply '
                       'patch.diff in a scratch worktree, demo again, repo '
                       'suite with PYTHONPATH=<worktree>, then ./check <id> '
                       '--tier %s with PYMAP_SRC=<copy of /repo/pymap + patch>' % tier})
        json.dump(meta, open(meta_path, 'w'), indent=1)
        print('kept as', d)
    return 0


if __name__ == '__main__':
    sys.exit(main())
